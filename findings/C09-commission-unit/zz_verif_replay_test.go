package keeper_test

// Demonstration for property C09: CreateReporter accepts commission rates up to 100 ("100 is a 100 percent
// commission rate") and negative ones, but DivvyingTips multiplies the reward by the stored rate as if it were a
// fraction. A reporter created with commission 50 is credited 50 times the reward, and its selector is debited:
// credits are negative (a selector's earlier tips shrink).

import (
	"testing"

	"github.com/stretchr/testify/mock"
	"github.com/stretchr/testify/require"
	"github.com/tellor-io/layer/testutil/sample"
	"github.com/tellor-io/layer/x/reporter/types"

	"cosmossdk.io/collections"
	"cosmossdk.io/math"

	sdk "github.com/cosmos/cosmos-sdk/types"
	stakingtypes "github.com/cosmos/cosmos-sdk/x/staking/types"
)

func TestVerifReplayC09CommissionRateUnit(t *testing.T) {
	k, sk, _, _, ms, ctx := setupMsgServer(t)
	ctx = ctx.WithBlockHeight(1)
	reporter, selector := sample.AccAddressBytes(), sample.AccAddressBytes()
	sk.On("IterateDelegatorDelegations", ctx, reporter, mock.AnythingOfType("func(types.Delegation) bool")).Return(nil).Run(func(args mock.Arguments) {
		fn := args.Get(2).(func(stakingtypes.Delegation) bool)
		val := stakingtypes.Validator{OperatorAddress: sdk.ValAddress(reporter).String(), Status: stakingtypes.Bonded, Tokens: math.NewInt(1_000_000), DelegatorShares: math.LegacyNewDec(1_000)}
		sk.On("GetValidator", ctx, sdk.ValAddress(reporter)).Return(val, nil)
		fn(stakingtypes.Delegation{DelegatorAddress: reporter.String(), ValidatorAddress: sdk.ValAddress(reporter).String(), Shares: math.LegacyNewDec(1000)})
	})
	// a commission of "50 percent" is accepted at creation
	_, err := ms.CreateReporter(ctx, &types.MsgCreateReporter{ReporterAddress: reporter.String(), CommissionRate: math.LegacyNewDec(50), MinTokensRequired: types.DefaultMinTrb})
	require.NoError(t, err)

	// the reporter reported with 500 of its own stake and 500 of a selector's
	qid := []byte("q")
	require.NoError(t, k.Report.Set(ctx, collections.Join(qid, collections.Join(reporter.Bytes(), uint64(1))), types.DelegationsAmounts{
		TokenOrigins: []*types.TokenOriginInfo{
			{DelegatorAddress: reporter, ValidatorAddress: sdk.ValAddress(reporter), Amount: math.NewInt(500)},
			{DelegatorAddress: selector, ValidatorAddress: sdk.ValAddress(reporter), Amount: math.NewInt(500)},
		},
		Total: math.NewInt(1000),
	}))
	require.NoError(t, k.SelectorTips.Set(ctx, selector, math.LegacyNewDec(100_000))) // tips the selector earned before
	require.NoError(t, k.DivvyingTips(ctx, reporter, math.LegacyNewDec(1000), qid, 1))

	selTips, err := k.SelectorTips.Get(ctx, selector)
	require.NoError(t, err)
	repTips, err := k.SelectorTips.Get(ctx, reporter)
	require.NoError(t, err)
	credit := selTips.Sub(math.LegacyNewDec(100_000))
	require.False(t, credit.IsNegative(), "VIOLATION C09: a reward of 1000 credits the selector %s and the reporter %s", credit, repTips)
	require.True(t, repTips.LTE(math.LegacyNewDec(1000)), "VIOLATION C09: the reporter is credited %s out of a reward of 1000", repTips)
}
