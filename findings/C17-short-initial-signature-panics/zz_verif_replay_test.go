package app_test

// Demonstration for property C17: "Arbitrary bytes in a vote extension ... never cause a panic in the handlers".
// VerifyVoteExtensionHandler accepts a vote extension whose initial signatures are at most 65 bytes long. The proposal
// handlers (CheckInitialSignaturesFromLastCommit, run while preparing and while processing a proposal) passed any
// non-empty SignatureA, with whatever SignatureB is, to the bridge keeper's EVMAddressFromSignatures, whose helper
// TryRecoverAddressWithBothIDs slices sig[:64] without looking at the length (the keeper's own tests pin that panic):
// a commit vote whose extension carries a 10-byte SignatureA -- or a full SignatureA and no SignatureB -- made every
// proposer's and every validator's handler panic. Here the handler runs against the REAL bridge keeper.

import (
	"encoding/json"
	"testing"

	abcitypes "github.com/cometbft/cometbft/abci/types"
	cmtproto "github.com/cometbft/cometbft/proto/tendermint/types"
	"github.com/stretchr/testify/require"
	"github.com/tellor-io/layer/app"
	keepertest "github.com/tellor-io/layer/testutil/keeper"

	"cosmossdk.io/log"
)

func TestVerifReplayC17ShortInitialSignature(t *testing.T) {
	bk, _, _, _, _, _, ctx := keepertest.BridgeKeeper(t)
	p := app.NewProposalHandler(log.NewNopLogger(), nil, nil, nil, bk, nil)

	for name, ext := range map[string]app.BridgeVoteExtension{
		"ten_byte_signature_a":       {InitialSignature: app.InitialSignature{SignatureA: []byte("0123456789")}},
		"full_signature_a_without_b": {InitialSignature: app.InitialSignature{SignatureA: make([]byte, 65)}},
	} {
		bz, err := json.Marshal(ext)
		require.NoError(t, err)
		commit := abcitypes.ExtendedCommitInfo{Votes: []abcitypes.ExtendedVoteInfo{{
			Validator:     abcitypes.Validator{Address: []byte("validator_consensus_"), Power: 10},
			VoteExtension: bz,
			BlockIdFlag:   cmtproto.BlockIDFlagCommit,
		}}}
		require.NotPanics(t, func() {
			ops, addrs, err := p.CheckInitialSignaturesFromLastCommit(ctx, commit)
			t.Logf("VERIF-REPLAY %s: operators=%v addresses=%v err=%v", name, ops, addrs, err)
			require.Empty(t, ops, "no address can be registered from such signatures")
		}, name)
	}
}
