package keeper_test

// Demonstration for properties C02/C07: governance replaces the cycle list by a shorter one while the rotation
// counter points past the end of the new list. The next EndBlocker (RotateQueries) indexes the list with the old
// counter and panics, which halts the chain.

import (
	"encoding/hex"
	"fmt"

	"github.com/tellor-io/layer/x/oracle/types"
	regtypes "github.com/tellor-io/layer/x/registry/types"
)

func (s *KeeperTestSuite) TestVerifReplayC02CyclelistShrink() {
	require := s.Require()
	ctx := s.ctx
	k := s.oracleKeeper
	s.registryKeeper.On("GetSpec", ctx, "SpotPrice").Return(regtypes.DataSpec{}, nil)
	list, err := k.GetCyclelist(ctx)
	require.NoError(err)
	require.GreaterOrEqual(len(list), 3, "the default cycle list has three queries")
	// the rotation counter points at the last query of the three-element list
	require.NoError(k.CyclelistSequencer.Set(ctx, uint64(len(list)-1)))
	matic, _ := hex.DecodeString("00000000000000000000000000000000000000000000000000000000000000400000000000000000000000000000000000000000000000000000000000000080000000000000000000000000000000000000000000000000000000000000000953706F745072696365000000000000000000000000000000000000000000000000000000000000000000000000000000000000000000000000000000000000C00000000000000000000000000000000000000000000000000000000000000040000000000000000000000000000000000000000000000000000000000000008000000000000000000000000000000000000000000000000000000000000000056D6174696300000000000000000000000000000000000000000000000000000000000000000000000000000000000000000000000000000000000000000000037573640000000000000000000000000000000000000000000000000000000000")
	_, err = s.msgServer.UpdateCyclelist(ctx, &types.MsgUpdateCyclelist{Authority: k.GetAuthority(), Cyclelist: [][]byte{matic}})
	require.NoError(err)
	defer func() {
		if r := recover(); r != nil {
			s.T().Fatalf("VIOLATION C02: end-of-block rotation panics after the cycle list was shortened: %v", r)
		}
	}()
	err = k.RotateQueries(ctx)
	require.NoError(err, fmt.Sprintf("VIOLATION C02: rotation fails after the cycle list was shortened: %v", err))
	// an empty cycle list must not be accepted at all: the rotation indexes the list every block
	_, err = s.msgServer.UpdateCyclelist(ctx, &types.MsgUpdateCyclelist{Authority: k.GetAuthority(), Cyclelist: [][]byte{}})
	require.Error(err, "VIOLATION C02: an empty cycle list is accepted; every later EndBlocker panics indexing it")
}
