package keeper_test

// Demonstration for properties C02/C12: a tied vote (support == against, both above invalid) must be decided,
// not make the begin-block tally return an error ("no majority" halts block processing).

import (
	"testing"
	"time"

	keepertest "github.com/tellor-io/layer/testutil/keeper"
	"github.com/tellor-io/layer/x/dispute/types"

	"cosmossdk.io/math"
)

func TestVerifReplayC12TallyTie(t *testing.T) {
	k, _, _, _, _, ctx := keepertest.DisputeKeeper(t)
	ctx = ctx.WithBlockTime(time.Unix(1000, 0))
	dispute := types.Dispute{DisputeId: 1, DisputeStatus: types.Unresolved, HashId: []byte("h")}
	vote := types.Vote{Id: 1}
	err := k.UpdateDispute(ctx, 1, dispute, vote, math.NewInt(10), math.NewInt(10), math.NewInt(0), false)
	if err != nil {
		t.Fatalf("VIOLATION C12/C02: tied vote (10 support, 10 against) is not decided: %v", err)
	}
}
