package integration_test

// Demonstration for property C05 (real staking and bank keepers): stake escrowed for a dispute from a validator
// that is unbonding is taken from the not-bonded pool; when the dispute returns it, the reporter keeper delegates it
// back with token source "Unbonded" (no pool transfer inside staking) while the dispute keeper sends the coins to
// the *bonded* pool. The staking ledger then records tokens that the not-bonded pool does not hold -- the SDK's
// own module-account invariant breaks.

import (
	disputetypes "github.com/tellor-io/layer/x/dispute/types"
	reportertypes "github.com/tellor-io/layer/x/reporter/types"

	"cosmossdk.io/math"

	sdk "github.com/cosmos/cosmos-sdk/types"
	stakingkeeper "github.com/cosmos/cosmos-sdk/x/staking/keeper"
	stakingtypes "github.com/cosmos/cosmos-sdk/x/staking/types"
)

func (s *IntegrationTestSuite) TestVerifReplayC05ReturnedStakeToUnbondingValidator() {
	require := s.Require()
	ctx := s.Setup.Ctx
	sk := s.Setup.Stakingkeeper
	accs, vals, _ := s.createValidatorAccs([]uint64{1000, 1000})
	inv := stakingkeeper.ModuleAccountInvariants(sk)
	msg, broken := inv(ctx)
	require.False(broken, msg)

	// validator 0 is jailed and starts unbonding
	val0, err := sk.GetValidator(ctx, vals[0])
	require.NoError(err)
	cons, err := val0.GetConsAddr()
	require.NoError(err)
	require.NoError(sk.Jail(ctx, cons))
	_, err = sk.EndBlocker(ctx)
	require.NoError(err)
	val0, err = sk.GetValidator(ctx, vals[0])
	require.NoError(err)
	require.Equal(stakingtypes.Unbonding, val0.Status)

	// 100 TRB of the delegator's stake with validator 0 are escrowed for a dispute (what EscrowReporterStake does for
	// an unbonding validator: unbond the shares, move the coins from the not-bonded pool to the dispute module)
	amt := math.NewInt(100_000_000)
	shares, err := val0.SharesFromTokens(amt)
	require.NoError(err)
	taken, err := sk.Unbond(ctx, accs[0], vals[0], shares)
	require.NoError(err)
	require.NoError(s.Setup.Bankkeeper.SendCoinsFromModuleToModule(ctx, stakingtypes.NotBondedPoolName, disputetypes.ModuleName, sdk.NewCoins(sdk.NewCoin(s.Setup.Denom, taken))))
	msg, broken = inv(ctx)
	require.False(broken, "after escrow: "+msg)
	hashId := []byte("hash")
	require.NoError(s.Setup.Reporterkeeper.DisputedDelegationAmounts.Set(ctx, hashId, reportertypes.DelegationsAmounts{
		TokenOrigins: []*reportertypes.TokenOriginInfo{{DelegatorAddress: accs[0], ValidatorAddress: vals[0], Amount: taken}},
		Total:        taken,
	}))

	// the dispute is decided for the reporter: the stake is returned
	require.NoError(s.Setup.Disputekeeper.ReturnSlashedTokens(ctx, disputetypes.Dispute{SlashAmount: taken, HashId: hashId}))
	msg, broken = inv(ctx)
	require.False(broken, "VIOLATION C05: after returning escrowed stake to a validator that is not bonded the staking pools no longer back the ledger: "+msg)
}
