package keeper_test

// Demonstration for properties C11/C05: the stake behind a disputed report is being unbonded in two entries
// (300 and 700). Escrowing the full 1000 must follow the unbonding entries; instead the function panics with an
// index out of range, so a fully funded dispute against this reporter can never be opened.

import (
	"testing"

	"github.com/stretchr/testify/mock"
	"github.com/tellor-io/layer/testutil/sample"
	"github.com/tellor-io/layer/x/reporter/types"

	"cosmossdk.io/collections"
	"cosmossdk.io/math"

	sdk "github.com/cosmos/cosmos-sdk/types"
	stakingtypes "github.com/cosmos/cosmos-sdk/x/staking/types"
)

func TestVerifReplayC11TwoUnbondingEntries(t *testing.T) {
	k, sk, bk, _, ctx, _ := setupKeeper(t)
	reporterAddr, valAddr1 := sample.AccAddressBytes(), sample.AccAddressBytes()
	stake := math.NewInt(1000)
	if err := k.Report.Set(ctx, collections.Join([]byte{}, collections.Join(reporterAddr.Bytes(), uint64(ctx.BlockHeight()))), types.DelegationsAmounts{
		TokenOrigins: []*types.TokenOriginInfo{{DelegatorAddress: reporterAddr, ValidatorAddress: sdk.ValAddress(valAddr1), Amount: stake}},
		Total:        stake,
	}); err != nil {
		t.Fatal(err)
	}
	validator1 := stakingtypes.Validator{Tokens: math.NewInt(5000), DelegatorShares: math.NewInt(5000).ToLegacyDec(), Status: stakingtypes.Bonded}
	sk.On("GetValidator", ctx, sdk.ValAddress(valAddr1)).Return(validator1, nil)
	sk.On("GetDelegation", ctx, reporterAddr, sdk.ValAddress(valAddr1)).Return(stakingtypes.Delegation{}, stakingtypes.ErrNoDelegation)
	sk.On("GetUnbondingDelegation", ctx, reporterAddr, sdk.ValAddress(valAddr1)).Return(stakingtypes.UnbondingDelegation{
		DelegatorAddress: reporterAddr.String(),
		ValidatorAddress: sdk.ValAddress(valAddr1).String(),
		Entries: []stakingtypes.UnbondingDelegationEntry{
			{CreationHeight: 1, InitialBalance: math.NewInt(300), Balance: math.NewInt(300)},
			{CreationHeight: 2, InitialBalance: math.NewInt(700), Balance: math.NewInt(700)},
		},
	}, nil)
	sk.On("SetUnbondingDelegation", ctx, mock.Anything).Return(nil)
	sk.On("RemoveUnbondingDelegation", ctx, mock.Anything).Return(nil)
	moved := math.ZeroInt()
	bk.On("SendCoinsFromModuleToModule", ctx, stakingtypes.NotBondedPoolName, "dispute", mock.Anything).Run(func(args mock.Arguments) {
		moved = moved.Add(args.Get(3).(sdk.Coins).AmountOf("loya"))
	}).Return(nil)
	defer func() {
		if r := recover(); r != nil {
			t.Fatalf("VIOLATION C11: escrowing stake that is unbonding in two entries panics: %v", r)
		}
	}()
	if err := k.EscrowReporterStake(ctx, reporterAddr, 1000, uint64(ctx.BlockHeight()), stake, []byte{}, []byte("hashId")); err != nil {
		t.Fatalf("VIOLATION C11: escrow failed: %v", err)
	}
	if !moved.Equal(stake) {
		t.Fatalf("VIOLATION C11: %s moved from the not-bonded pool into dispute escrow, expected %s", moved, stake)
	}
}
