package integration_test

// Demonstration for property C11 (real staking, bank, reporter and dispute keepers): EscrowReporterStake computes every
// backer's share of the slash amount relative to power * 10^6 -- the reporter's stake rounded DOWN to whole TRB --
// instead of the recorded total, and gives the last backer its share plus the (possibly negative) leftover.

import (
	"bytes"
	"encoding/hex"
	"sort"
	"time"

	"github.com/tellor-io/layer/testutil/sample"
	"github.com/tellor-io/layer/x/dispute/keeper"
	"github.com/tellor-io/layer/x/dispute/types"
	oracletypes "github.com/tellor-io/layer/x/oracle/types"
	reportertypes "github.com/tellor-io/layer/x/reporter/types"

	"cosmossdk.io/collections"
	"cosmossdk.io/math"

	sdk "github.com/cosmos/cosmos-sdk/types"
	stakingkeeper "github.com/cosmos/cosmos-sdk/x/staking/keeper"
	stakingtypes "github.com/cosmos/cosmos-sdk/x/staking/types"
)

func (s *IntegrationTestSuite) TestVerifReplayC11NegativeLastShare() {
	require := s.Require()
	ctx := s.Setup.Ctx
	msgServer := keeper.NewMsgServerImpl(s.Setup.Disputekeeper)
	stakingServer := stakingkeeper.NewMsgServerImpl(s.Setup.Stakingkeeper)
	_, valAddrs, _ := s.createValidatorAccs([]uint64{100})
	val, err := s.Setup.Stakingkeeper.GetValidator(ctx, valAddrs[0])
	require.NoError(err)

	// three backers of one reporter, in the order in which the stake record lists them (by address)
	accs := []sdk.AccAddress{sample.AccAddressBytes(), sample.AccAddressBytes(), sample.AccAddressBytes()}
	sort.Slice(accs, func(i, j int) bool { return bytes.Compare(accs[i], accs[j]) < 0 })
	amounts := []int64{1_900_000, 1_000_000, 99_999} // 2.999999 TRB in all: reporting power 2
	rep := accs[0]
	require.NoError(s.Setup.Reporterkeeper.Reporters.Set(ctx, rep.Bytes(), reportertypes.NewReporter(reportertypes.DefaultMinCommissionRate, math.OneInt())))
	for i, a := range accs {
		s.Setup.MintTokens(a, math.NewInt(amounts[i]))
		_, err = stakingServer.Delegate(ctx, &stakingtypes.MsgDelegate{DelegatorAddress: a.String(), ValidatorAddress: val.OperatorAddress, Amount: sdk.NewCoin(s.Setup.Denom, math.NewInt(amounts[i]))})
		require.NoError(err)
		require.NoError(s.Setup.Reporterkeeper.Selectors.Set(ctx, a.Bytes(), reportertypes.NewSelection(rep.Bytes(), 1)))
	}
	qId, _ := hex.DecodeString("83a7f3d48786ac2667503a61e8c415438ed2922eb86a2906e4ee66d9a2ce4992")
	stake, err := s.Setup.Reporterkeeper.ReporterStake(ctx, rep, qId)
	require.NoError(err)
	require.Equal(math.NewInt(2_999_999), stake)
	power := stake.Quo(math.NewInt(1_000_000)).Uint64() // 2, as the oracle module records it
	rec, err := s.Setup.Reporterkeeper.Report.Get(ctx, collections.Join(qId, collections.Join(rep.Bytes(), uint64(ctx.BlockHeight()))))
	require.NoError(err)
	for i, o := range rec.TokenOrigins {
		s.T().Logf("VERIF-REPLAY backer %d: %s loya", i, o.Amount)
	}

	report := oracletypes.MicroReport{Reporter: rep.String(), Power: power, QueryId: qId, Value: "00", Timestamp: time.Unix(1696516597, 0), BlockNumber: uint64(ctx.BlockHeight())}
	disputer := s.newKeysWithTokens()
	s.Setup.MintTokens(disputer, math.NewInt(2_000_000))
	_, err = msgServer.ProposeDispute(ctx, &types.MsgProposeDispute{
		Creator:         disputer.String(),
		Report:          &report,
		Fee:             sdk.NewCoin(s.Setup.Denom, math.NewInt(2_000_000)), // major: 100 % of power 2
		DisputeCategory: types.Major,
	})
	s.T().Logf("VERIF-REPLAY fully funded major dispute: err = %v", err)
	// C11: a fully funded dispute slashes; it cannot be made impossible by how the stake is split among backers
	require.NoError(err)
}
