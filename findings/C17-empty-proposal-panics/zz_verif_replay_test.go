package app_test

// Demonstration for property C17 ("... never cause a panic in the handlers"): once vote extensions are enabled,
// ProcessProposalHandler decodes req.Txs[0] as the injected vote-extension transaction without looking at the number of
// transactions. A proposal without any transaction (what a proposer that injects nothing sends when the mempool is
// empty) made the handler panic with "index out of range [0] with length 0" instead of rejecting the proposal.

import (
	"testing"

	abcitypes "github.com/cometbft/cometbft/abci/types"
	cmtproto "github.com/cometbft/cometbft/proto/tendermint/types"
	"github.com/stretchr/testify/require"
	"github.com/tellor-io/layer/app"
	keepertest "github.com/tellor-io/layer/testutil/keeper"

	"cosmossdk.io/log"
)

func TestVerifReplayC17EmptyProposal(t *testing.T) {
	bk, _, _, _, _, _, ctx := keepertest.BridgeKeeper(t)
	ctx = ctx.WithConsensusParams(cmtproto.ConsensusParams{Abci: &cmtproto.ABCIParams{VoteExtensionsEnableHeight: 1}})
	p := app.NewProposalHandler(log.NewNopLogger(), nil, nil, nil, bk, nil)
	require.NotPanics(t, func() {
		resp, err := p.ProcessProposalHandler(ctx, &abcitypes.RequestProcessProposal{Height: 5, Txs: [][]byte{}})
		t.Logf("VERIF-REPLAY response=%v err=%v", resp, err)
		require.NoError(t, err)
		require.Equal(t, abcitypes.ResponseProcessProposal_REJECT, resp.Status, "a proposal without the injected transaction is rejected")
	})
}
