package integration_test

// Demonstration for property C11 (real staking, bank, reporter, oracle and dispute keepers): ProposeDispute takes the
// disputed micro-report -- value, power, timestamp -- from the message and never compares it with what the oracle
// module stored. The only tie to reality is that the reporter keeper must hold a stake record for (query id,
// reporter, block number). A disputer who states ten times the power the report really had pays ten times the
// fee, and the slash is computed from the stated power: EscrowReporterStake gives every backer its category share
// of the *stated* total and loads the difference ("leftover") onto the last backer. A warning dispute (1 %) then
// takes 10 % of the stake that backed the report.

import (
	"encoding/hex"
	"time"

	"github.com/tellor-io/layer/x/dispute/keeper"
	"github.com/tellor-io/layer/x/dispute/types"
	oracletypes "github.com/tellor-io/layer/x/oracle/types"
	reportertypes "github.com/tellor-io/layer/x/reporter/types"

	"cosmossdk.io/math"

	sdk "github.com/cosmos/cosmos-sdk/types"
)

func (s *IntegrationTestSuite) TestVerifReplayC11ForgedReportPower() {
	require := s.Require()
	msgServer := keeper.NewMsgServerImpl(s.Setup.Disputekeeper)
	_, valAddrs, _ := s.createValidatorAccs([]uint64{50}) // one validator, one delegation
	valAddr := valAddrs[0]
	repAddr := sdk.AccAddress(valAddr)
	require.NoError(s.Setup.Reporterkeeper.Reporters.Set(s.Setup.Ctx, repAddr.Bytes(), reportertypes.NewReporter(reportertypes.DefaultMinCommissionRate, math.OneInt())))
	require.NoError(s.Setup.Reporterkeeper.Selectors.Set(s.Setup.Ctx, repAddr.Bytes(), reportertypes.NewSelection(repAddr.Bytes(), 1)))

	// the stake record the reporter module writes when the reporter submits a value: 100 TRB back the report
	qId, _ := hex.DecodeString("83a7f3d48786ac2667503a61e8c415438ed2922eb86a2906e4ee66d9a2ce4992")
	stake, err := s.Setup.Reporterkeeper.ReporterStake(s.Setup.Ctx, repAddr, qId)
	require.NoError(err)
	realPower := stake.Quo(math.NewInt(1_000_000)).Uint64() // the power the oracle module records for this report
	val, err := s.Setup.Stakingkeeper.GetValidator(s.Setup.Ctx, valAddr)
	require.NoError(err)
	tokensBefore := val.Tokens

	// the dispute states ten times the power the report had, and a value nobody reported
	report := oracletypes.MicroReport{
		Reporter:    repAddr.String(),
		Power:       10 * realPower,
		QueryId:     qId,
		Value:       "00000000000000000000000000000000000000000000000000000000deadbeef",
		Timestamp:   time.Unix(1696516597, 0),
		BlockNumber: uint64(s.Setup.Ctx.BlockHeight()),
	}
	disputer := s.newKeysWithTokens()
	s.Setup.MintTokens(disputer, stake)
	_, err = msgServer.ProposeDispute(s.Setup.Ctx, &types.MsgProposeDispute{
		Creator:         disputer.String(),
		Report:          &report,
		Fee:             sdk.NewCoin(s.Setup.Denom, stake.QuoRaw(10)), // 1 % of the stated stake (10 x the real one)
		DisputeCategory: types.Warning,
	})
	require.NoError(err, "a dispute over a report that was never submitted with this value and power is accepted")
	dispute, err := s.Setup.Disputekeeper.Disputes.Get(s.Setup.Ctx, 1)
	require.NoError(err)
	require.Equal(types.Voting, dispute.DisputeStatus)

	val, err = s.Setup.Stakingkeeper.GetValidator(s.Setup.Ctx, valAddr)
	require.NoError(err)
	lost := tokensBefore.Sub(val.Tokens)
	s.T().Logf("VERIF-REPLAY stake that backed the report: %s, warning dispute (1%%) took: %s", tokensBefore, lost)
	// C11: a warning dispute takes exactly 1 % of the stake that backed the report
	require.Equal(stake.QuoRaw(100), lost, "warning dispute must take exactly 1%% of the backing stake")
}
