package keeper_test

// Demonstration for property C05 (also C13): a dispute fee of 100 paid from a selector's stake that sits with two
// validators, 30 and 70. The first validator cannot cover the fee share, so all 30 are unbonded there and the
// remaining 70 from the second. The per-backer record must say 30 and 70 (it is used to split the refund); it
// said 70 and 70, so the record summed to 140 for a total of 100.

import (
	"testing"

	"github.com/stretchr/testify/mock"
	"github.com/stretchr/testify/require"
	"github.com/tellor-io/layer/testutil/sample"
	"github.com/tellor-io/layer/x/reporter/types"

	"cosmossdk.io/math"

	sdk "github.com/cosmos/cosmos-sdk/types"
	stakingtypes "github.com/cosmos/cosmos-sdk/x/staking/types"
)

func TestVerifReplayC05FeeTrackerRecordsWhatWasTaken(t *testing.T) {
	k, sk, bk, _, ctx, _ := setupKeeper(t)
	fee := math.NewInt(100)
	reporterAddr, selector := sample.AccAddressBytes(), sample.AccAddressBytes()
	val1, val2 := sdk.ValAddress(sample.AccAddressBytes()), sdk.ValAddress(sample.AccAddressBytes())
	require.NoError(t, k.Selectors.Set(ctx, selector, types.NewSelection(reporterAddr, 2)))
	dels := []stakingtypes.Delegation{
		{DelegatorAddress: selector.String(), ValidatorAddress: val1.String(), Shares: math.LegacyNewDec(30)},
		{DelegatorAddress: selector.String(), ValidatorAddress: val2.String(), Shares: math.LegacyNewDec(70)},
	}
	v1 := stakingtypes.Validator{OperatorAddress: val1.String(), Tokens: math.NewInt(30), DelegatorShares: math.LegacyNewDec(30), Status: stakingtypes.Bonded}
	v2 := stakingtypes.Validator{OperatorAddress: val2.String(), Tokens: math.NewInt(70), DelegatorShares: math.LegacyNewDec(70), Status: stakingtypes.Bonded}
	sk.On("GetValidator", ctx, val1).Return(v1, nil)
	sk.On("GetValidator", ctx, val2).Return(v2, nil)
	sk.On("IterateDelegatorDelegations", ctx, selector, mock.AnythingOfType("func(types.Delegation) bool")).Return(nil).Run(func(args mock.Arguments) {
		fn := args.Get(2).(func(stakingtypes.Delegation) bool)
		for _, d := range dels {
			fn(d)
		}
	})
	sk.On("Unbond", ctx, selector, val1, math.LegacyNewDec(30)).Return(math.NewInt(30), nil)
	sk.On("Unbond", ctx, selector, val2, math.LegacyNewDec(70)).Return(math.NewInt(70), nil)
	bk.On("SendCoinsFromModuleToModule", ctx, stakingtypes.BondedPoolName, "dispute", sdk.NewCoins(sdk.NewCoin("loya", fee))).Return(nil)
	require.NoError(t, k.FeefromReporterStake(ctx, reporterAddr, fee, []byte("hashId")))

	rec, err := k.FeePaidFromStake.Get(ctx, []byte("hashId"))
	require.NoError(t, err)
	require.Equal(t, fee, rec.Total)
	sum := math.ZeroInt()
	for _, o := range rec.TokenOrigins {
		sum = sum.Add(o.Amount)
	}
	require.Equal(t, rec.Total.String(), sum.String(), "VIOLATION C05: the per-backer record of the fee taken from stake does not sum to the amount taken")
	require.Equal(t, "30", rec.TokenOrigins[0].Amount.String(), "VIOLATION C05: recorded the amount still owed instead of the amount taken from the first validator")
}
