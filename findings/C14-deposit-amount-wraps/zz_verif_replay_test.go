package keeper_test

// Demonstration for property C14: "exactly the reported amount divided by 10^12 is minted" for report values with an
// amount of any size. DecodeDepositReportValue converted amount / 10^12 with big.Int.Int64(), which keeps the low 64
// bits: a reported amount of (2^64 + 5) * 10^12 decoded to 5 loya (and one between 2^63 and 2^64 times 10^12 to a
// negative number, on which sdk.NewInt64Coin panics).

import (
	"encoding/hex"
	"math/big"
	"testing"

	"github.com/ethereum/go-ethereum/accounts/abi"
	"github.com/ethereum/go-ethereum/common"
	"github.com/stretchr/testify/require"

	simtestutil "github.com/cosmos/cosmos-sdk/testutil/sims"
)

func TestVerifReplayC14DepositAmountWraps(t *testing.T) {
	k, _, _, _, _, _, ctx := setupKeeper(t)
	addressType, _ := abi.NewType("address", "", nil)
	uint256Type, _ := abi.NewType("uint256", "", nil)
	stringType, _ := abi.NewType("string", "", nil)
	args := abi.Arguments{{Type: addressType}, {Type: stringType}, {Type: uint256Type}, {Type: uint256Type}}
	ethAddress := common.HexToAddress("0x3386518F7ab3eb51591571adBE62CF94540EAd29")
	layerAddress := simtestutil.CreateIncrementalAccounts(1)[0].String()

	loya := new(big.Int).Add(new(big.Int).Lsh(big.NewInt(1), 64), big.NewInt(5)) // 2^64 + 5 loya
	reported := new(big.Int).Mul(loya, big.NewInt(1e12))
	packed, err := args.Pack(ethAddress, layerAddress, new(big.Int).Set(reported), big.NewInt(0))
	require.NoError(t, err)

	_, amount, _, err := k.DecodeDepositReportValue(ctx, hex.EncodeToString(packed))
	require.NoError(t, err)
	t.Logf("VERIF-REPLAY reported %s (= %s loya), decoded %s loya", reported, loya, amount.AmountOf("loya"))
	require.Equal(t, loya.String(), amount.AmountOf("loya").BigInt().String(), "the decoded amount must be the reported amount divided by 10^12")
}
