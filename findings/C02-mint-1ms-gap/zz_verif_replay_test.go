package integration_test

// Demonstration for property C02 (real bank keeper): two consecutive blocks whose times differ by 1 ms -- the
// consensus engine's minimum increment -- make the mint BeginBlocker mint 1 loya, whose quarter for the fee
// collector is 0; bank.InputOutputCoins rejects the empty output and the error leaves the begin blocker.

import (
	"time"

	"github.com/tellor-io/layer/x/mint"
)

func (s *IntegrationTestSuite) TestVerifReplayC02MintOneMillisecondGap() {
	require := s.Require()
	k := s.Setup.Mintkeeper
	t0 := time.Date(2026, 1, 1, 0, 0, 0, 0, time.UTC)
	ctx := s.Setup.Ctx.WithBlockTime(t0)
	minter, err := k.Minter.Get(ctx)
	require.NoError(err)
	minter.Initialized = true
	minter.PreviousBlockTime = &t0
	require.NoError(k.Minter.Set(ctx, minter))
	for _, gap := range []time.Duration{time.Millisecond, 2 * time.Millisecond, 3 * time.Millisecond, time.Second} {
		t0 = t0.Add(gap)
		ctx = ctx.WithBlockTime(t0)
		err = mint.BeginBlocker(ctx, k)
		require.NoError(err, "VIOLATION C02: mint BeginBlocker fails for a block-time gap of %s", gap)
	}
}
