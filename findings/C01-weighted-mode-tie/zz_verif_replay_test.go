package keeper_test

// Demonstration for property C01 (determinism) / C06: two values with exactly equal total power.
// WeightedMode is run 300 times on the same two reports; the aggregate value must always be the same.

import (
	"testing"

	keepertest "github.com/tellor-io/layer/testutil/keeper"
	"github.com/tellor-io/layer/x/oracle/types"
)

func TestVerifReplayC01ModeTie(t *testing.T) {
	k, _, _, _, _, ctx := keepertest.OracleKeeper(t)
	seen := map[string]int{}
	for n := 0; n < 300; n++ {
		reports := []types.MicroReport{
			{Reporter: "r1", Power: 5, Value: "aa", QueryId: []byte("q")},
			{Reporter: "r2", Power: 5, Value: "bb", QueryId: []byte("q")},
		}
		agg, err := k.WeightedMode(ctx, reports, 1)
		if err != nil {
			t.Fatal(err)
		}
		seen[agg.AggregateValue]++
	}
	if len(seen) != 1 {
		t.Fatalf("VIOLATION C01: equal-weight tie resolved differently on repeated runs of the same input: %v", seen)
	}
}
