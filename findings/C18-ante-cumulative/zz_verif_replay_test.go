package ante

// Demonstration for property C18 (tx-cumulative 5% bound). One transaction with three MsgDelegate of 4% each
// against a baseline of 1000 with 1000 currently bonded: each message alone is within 5%, together they add 12%.
// The property requires the transaction to be rejected (next must not be called).

import (
	"testing"

	"github.com/tellor-io/layer/testutil/encoding"
	keepertest "github.com/tellor-io/layer/testutil/keeper"
	"github.com/tellor-io/layer/testutil/sample"
	"github.com/tellor-io/layer/x/reporter/types"

	"cosmossdk.io/math"

	"github.com/cosmos/cosmos-sdk/client"
	sdk "github.com/cosmos/cosmos-sdk/types"
	stakingtypes "github.com/cosmos/cosmos-sdk/x/staking/types"
)

func TestVerifReplayC18Cumulative(t *testing.T) {
	k, sk, _, _, ctx, _ := keepertest.ReporterKeeper(t)
	decorator := NewTrackStakeChangesDecorator(k, sk)
	sk.On("TotalBondedTokens", ctx).Return(math.NewInt(1000), nil)
	if err := k.Tracker.Set(ctx, types.StakeTracker{Amount: math.NewInt(1000)}); err != nil {
		t.Fatal(err)
	}
	mk := func() sdk.Msg {
		return &stakingtypes.MsgDelegate{
			DelegatorAddress: sample.AccAddressBytes().String(),
			ValidatorAddress: sample.AccAddressBytes().String(),
			Amount:           sdk.Coin{Denom: "loya", Amount: math.NewInt(40)},
		}
	}
	s := encoding.GetTestEncodingCfg()
	txb := client.Context{}.WithTxConfig(s.TxConfig).TxConfig.NewTxBuilder()
	if err := txb.SetMsgs(mk(), mk(), mk()); err != nil {
		t.Fatal(err)
	}
	called := false
	_, err := decorator.AnteHandle(ctx, txb.GetTx(), false, func(ctx sdk.Context, tx sdk.Tx, simulate bool) (sdk.Context, error) {
		called = true
		return ctx, nil
	})
	// bonded 1000 + 120 = 1120 > 1050 = 105% of baseline
	if called || err == nil {
		t.Fatalf("VIOLATION C18: transaction adding 12%% of the baseline in three 4%% messages was admitted (next called=%v, err=%v)", called, err)
	}
}
