package keeper_test

// Demonstration for properties C09/C04: a reporter whose own stake is bonded with two validators has two
// token origins. With commission 10% and a reward of 1000 the credits must sum to 1000; the commission (100)
// must be credited once.

import (
	"testing"

	"github.com/tellor-io/layer/testutil/sample"
	"github.com/tellor-io/layer/x/reporter/types"

	"cosmossdk.io/collections"
	"cosmossdk.io/math"
)

func TestVerifReplayC09CommissionOnce(t *testing.T) {
	k, _, _, _, ctx, _ := setupKeeper(t)
	height := uint64(10)
	rep := sample.AccAddressBytes()
	val1, val2 := sample.AccAddressBytes(), sample.AccAddressBytes()
	if err := k.Reporters.Set(ctx, rep, types.NewReporter(math.LegacyNewDecWithPrec(1, 1), math.OneInt())); err != nil {
		t.Fatal(err)
	}
	origins := []*types.TokenOriginInfo{
		{DelegatorAddress: rep.Bytes(), ValidatorAddress: val1.Bytes(), Amount: math.NewInt(500)},
		{DelegatorAddress: rep.Bytes(), ValidatorAddress: val2.Bytes(), Amount: math.NewInt(500)},
	}
	if err := k.Report.Set(ctx, collections.Join([]byte{}, collections.Join(rep.Bytes(), height)), types.DelegationsAmounts{TokenOrigins: origins, Total: math.NewInt(1000)}); err != nil {
		t.Fatal(err)
	}
	if err := k.DivvyingTips(ctx, rep, math.LegacyNewDec(1000), []byte{}, height); err != nil {
		t.Fatal(err)
	}
	got, err := k.SelectorTips.Get(ctx, rep.Bytes())
	if err != nil {
		t.Fatal(err)
	}
	if !got.Equal(math.LegacyNewDec(1000)) {
		t.Fatalf("VIOLATION C09: reward 1000 with 10%% commission, reporter bonded with two validators: credited %s instead of 1000", got)
	}
}
