package keeper_test

// Demonstration for property C13: a fee payer's record (DisputeFeePayer) is the basis of its pro-rata refund
// (WithdrawFeeRefund: payerInfo.Amount / dispute.FeeTotal). AddFeeToDispute stored the amount of the current payment
// over whatever the same payer had paid before, so a payer who funds a dispute in two payments is refunded for the
// last one only, while dispute.FeeTotal counts both: the difference stays in dispute escrow.

import (
	"time"

	"github.com/stretchr/testify/mock"
	"github.com/tellor-io/layer/testutil/sample"
	layer "github.com/tellor-io/layer/types"
	"github.com/tellor-io/layer/x/dispute/types"

	"cosmossdk.io/collections"
	"cosmossdk.io/math"

	sdk "github.com/cosmos/cosmos-sdk/types"
)

func (k *KeeperTestSuite) TestVerifReplayC13RepeatedFeePayment() {
	payer := sample.AccAddressBytes()
	dispute := k.dispute()
	dispute.FeeTotal = math.ZeroInt()
	dispute.DisputeEndTime = k.ctx.BlockTime().Add(24 * time.Hour)
	k.NoError(k.disputeKeeper.Disputes.Set(k.ctx, dispute.DisputeId, dispute))
	k.True(dispute.SlashAmount.GT(math.NewInt(7000)), "the two payments below do not complete the fee")
	k.bankKeeper.On("HasBalance", k.ctx, payer, mock.Anything).Return(true)
	k.bankKeeper.On("SendCoinsFromAccountToModule", k.ctx, payer, types.ModuleName, mock.Anything).Return(nil)

	for _, amt := range []int64{4000, 3000} {
		_, err := k.msgServer.AddFeeToDispute(k.ctx, &types.MsgAddFeeToDispute{
			Creator: payer.String(), DisputeId: dispute.DisputeId, Amount: sdk.NewCoin(layer.BondDenom, math.NewInt(amt)),
		})
		k.NoError(err)
	}
	d, err := k.disputeKeeper.Disputes.Get(k.ctx, dispute.DisputeId)
	k.NoError(err)
	info, err := k.disputeKeeper.DisputeFeePayer.Get(k.ctx, collections.Join(dispute.DisputeId, payer.Bytes()))
	k.NoError(err)
	k.T().Logf("VERIF-REPLAY fee total %s, recorded for the only payer: %s", d.FeeTotal, info.Amount)
	k.Equal(math.NewInt(7000), d.FeeTotal)
	k.Equal(d.FeeTotal, info.Amount, "the only payer's record must cover everything it paid")
}
