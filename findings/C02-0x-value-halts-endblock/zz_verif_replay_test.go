package keeper_test

// Demonstration for property C02: a report value with a 0x prefix passes the submission check (SetValue
// validates it with the prefix stripped, and stores it as submitted) but aggregation parsed the stored string with
// big.Int.SetString(v, 16), which rejects the prefix; the error propagates out of the oracle EndBlocker.

import (
	"github.com/tellor-io/layer/testutil/sample"
	"github.com/tellor-io/layer/utils"
	"github.com/tellor-io/layer/x/oracle/types"
	regtypes "github.com/tellor-io/layer/x/registry/types"

	"cosmossdk.io/collections"
	"cosmossdk.io/math"
)

func (s *KeeperTestSuite) TestVerifReplayC02PrefixedValueAggregates() {
	require := s.Require()
	ctx := s.ctx.WithBlockHeight(10)
	k := s.oracleKeeper
	reporter := sample.AccAddressBytes()
	queryId, err := utils.QueryIDFromDataString(queryData)
	require.NoError(err)
	queryBytes, err := utils.QueryBytesFromString(queryData)
	require.NoError(err)
	query := types.QueryMeta{Id: 1, Amount: math.NewInt(0), Expiration: 10, RegistrySpecBlockWindow: 2, QueryData: queryBytes, QueryType: "SpotPrice", CycleList: true}
	require.NoError(k.Query.Set(ctx, collections.Join(queryId, query.Id), query))
	s.registryKeeper.On("GetSpec", ctx, "SpotPrice").Return(regtypes.GenesisDataSpec(), nil)
	// the submission is accepted
	require.NoError(k.SetValue(ctx, reporter, query, "0x0000000000000000000000000000000000000000000000000000000000000009", queryBytes, 1, false))
	// ... and the end-of-block aggregation of the expired round must not fail
	err = k.SetAggregatedReport(ctx)
	require.NoError(err, "VIOLATION C02: end-of-block aggregation fails on an accepted report value")
}
