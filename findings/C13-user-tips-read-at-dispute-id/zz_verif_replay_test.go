package keeper_test

// Demonstration for property C13: a tipper's vote is weighted with the tips it had at the dispute's block
// (msg_server_vote.go: SetVoterTips(..., dispute.BlockNumber, ...)), and the group total recorded in
// VoteCountsByGroup.Users is built from those weights; CalculateReward reads the claimant's tips again but passes the
// dispute ID where the block number belongs. A tipper whose tips were made after block <dispute id> gets no part of
// the voters' reward although it is the only voter of its group: the pot stays in dispute escrow for good.

import (
	"testing"

	"github.com/stretchr/testify/mock"
	"github.com/stretchr/testify/require"
	keepertest "github.com/tellor-io/layer/testutil/keeper"
	"github.com/tellor-io/layer/testutil/sample"
	"github.com/tellor-io/layer/x/dispute/types"

	"cosmossdk.io/collections"
	"cosmossdk.io/math"
)

func TestVerifReplayC13UserTipsReadAtDisputeBlock(t *testing.T) {
	k, ok, _, _, _, ctx := keepertest.DisputeKeeper(t)
	voter := sample.AccAddressBytes()
	const id, disputeBlock = uint64(1), uint64(500)
	require.NoError(t, k.Disputes.Set(ctx, id, types.Dispute{
		DisputeId: id, HashId: []byte("h"), DisputeStatus: types.Resolved, BlockNumber: disputeBlock,
		PrevDisputeIds: []uint64{id}, VoterReward: math.NewInt(1_000_000),
	}))
	require.NoError(t, k.Votes.Set(ctx, id, types.Vote{Id: id, Executed: true, VoteResult: types.VoteResult_SUPPORT}))
	// the tipper voted with the 100 loya of tips it had at the dispute's block; nobody else voted
	require.NoError(t, k.Voter.Set(ctx, collections.Join(id, voter.Bytes()), types.Voter{Vote: types.VoteEnum_VOTE_SUPPORT, VoterPower: math.NewInt(100), ReporterPower: math.ZeroInt(), TokenholderPower: math.ZeroInt()}))
	require.NoError(t, k.VoteCountsByGroup.Set(ctx, id, types.StakeholderVoteCounts{Users: types.VoteCounts{Support: 100}}))
	// the oracle module: tips of this tipper as of a block -- none yet at block 1, 100 at the dispute's block
	ok.On("GetTipsAtBlockForTipper", mock.Anything, disputeBlock, voter).Return(math.NewInt(100), nil).Maybe()
	ok.On("GetTipsAtBlockForTipper", mock.Anything, id, voter).Return(math.ZeroInt(), nil).Maybe()

	reward, err := k.CalculateReward(ctx, voter, id)
	require.NoError(t, err)
	t.Logf("VERIF-REPLAY voters' pot 1000000, only voter's reward: %s", reward)
	require.Equal(t, math.NewInt(1_000_000), reward, "the only voter of the only voting group is owed the whole pot")
}
