#!/bin/bash
# corpus.sh [name-pattern]  -- must-fail selftest: every stored seeded change (seeded/<name>/patch.diff) is applied
# to its own scratch worktree of /repo's HEAD under /tmp, the property checks that caught it when it was confirmed
# are run against that worktree (GOVC_REPO / GOVC_OUT: nothing in /repo or /verif/evidence is touched), and each
# are run; at least one must exit 1 with a VIOLATION line. Prints one line per seed and a summary; exit 1 if a seed is no longer caught.
export GOFLAGS=-mod=mod GOPROXY=off GOSUMDB=off GOTOOLCHAIN=local
PAT=${1:-}
ROOT=/tmp/corpus.$$
mkdir -p $ROOT/frozen
# frozen copies: the run is not disturbed by later rebuilds, baselines or commits in /repo
cp /verif/bin/govc $ROOT/frozen/govc
cp -r /verif/baseline $ROOT/frozen/baseline
cp /verif/known_findings.jsonl $ROOT/frozen/known_findings.jsonl
export CORPUS_SHA=$(git -C /repo rev-parse HEAD)
JOBS=${JOBS:-3}
run_one() {
  NAME=$1; ROOT=$2
  D=/verif/seeded/$NAME
  PROPS=$(python3 -c "
import json
m=json.load(open('$D/meta.json'))
cs=m.get('confirmed_by_me',{}).get('checks',[])
print(' '.join(c.split(':')[0] for c in cs))")
  [ -z "$PROPS" ] && { echo "SKIP $NAME (no check recorded as catching it)"; return; }
  WT=$ROOT/wt_$NAME
  git -C /repo worktree add -q --detach $WT $CORPUS_SHA 2>/dev/null || { echo "ERROR $NAME worktree"; return; }
  if ! git -C $WT apply $D/patch.diff 2>/dev/null; then echo "ERROR $NAME patch does not apply"; git -C /repo worktree remove --force $WT; return; fi
  RES=""; HIT=0
  for P in $PROPS; do
    GOVC_REPO=$WT GOVC_OUT=$ROOT/out_$NAME GOVC_FROZEN=$ROOT/frozen $ROOT/frozen/govc check $P > $ROOT/$NAME.$P.txt 2>&1; RC=$?
    V=$(grep -c "^VIOLATION" $ROOT/$NAME.$P.txt)
    RES="$RES $P:exit$RC:violations=$V"
    if [ $RC -eq 1 ] && [ $V -gt 0 ]; then HIT=1; fi
  done
  if [ $HIT -eq 1 ]; then echo "CAUGHT $NAME$RES"; else echo "MISSED $NAME$RES"; fi
  git -C /repo worktree remove --force $WT; rm -rf $ROOT/out_$NAME
}
export -f run_one
ls /verif/seeded | grep -v "\.txt$" | grep -E "${PAT:-.}" | xargs -P $JOBS -I{} bash -c "run_one {} $ROOT" | tee $ROOT/summary.txt
M=$(grep -c "^MISSED\|^ERROR" $ROOT/summary.txt); C=$(grep -c "^CAUGHT" $ROOT/summary.txt)
cp $ROOT/summary.txt /verif/seeded/CORPUS_LAST_RUN.txt
rm -rf $ROOT; git -C /repo worktree prune
echo "corpus: caught=$C missed_or_error=$M"
[ "$M" -eq 0 ]
