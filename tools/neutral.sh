#!/bin/bash
# neutral.sh [name-pattern] -- must-pass selftest: every stored semantics-preserving edit (neutral/<name>/patch.diff:
# renamed locals, a helper extracted, a loop added, statements reordered, a log line) is applied to a scratch worktree
# of /repo's HEAD, must still compile, and the property checks named in its meta.json must exit 0 without a
# VIOLATION line. Exit 1 if a check raises an alarm on one of them.
export GOFLAGS=-mod=mod GOPROXY=off GOSUMDB=off GOTOOLCHAIN=local
PAT=${1:-.}
ROOT=/tmp/neutral.$$
mkdir -p $ROOT
BAD=0
for NAME in $(ls /verif/neutral | grep -E "$PAT"); do
  D=/verif/neutral/$NAME
  [ -f $D/patch.diff ] || continue
  PROPS=$(python3 -c "import json;print(json.load(open('$D/meta.json'))['checks'])")
  WT=$ROOT/wt_$NAME
  git -C /repo worktree add -q --detach $WT HEAD || { echo "ERROR $NAME worktree"; BAD=1; continue; }
  if ! git -C $WT apply $D/patch.diff; then echo "ERROR $NAME patch does not apply"; BAD=1; git -C /repo worktree remove --force $WT; continue; fi
  PKGS=$(git -C $WT diff --name-only | xargs -n1 dirname | sort -u | sed 's|^|./|' | tr '\n' ' ')
  if ! (cd $WT && go build $PKGS > $ROOT/$NAME.build.txt 2>&1); then echo "ERROR $NAME does not compile"; BAD=1; git -C /repo worktree remove --force $WT; continue; fi
  RES=""
  for P in $PROPS; do
    GOVC_REPO=$WT GOVC_OUT=$ROOT/out_$NAME /verif/bin/govc check $P > $ROOT/$NAME.$P.txt 2>&1; RC=$?
    V=$(grep -c "^VIOLATION" $ROOT/$NAME.$P.txt)
    RES="$RES $P:exit$RC:violations=$V"
    if [ $RC -ne 0 ] || [ $V -gt 0 ]; then BAD=1; RES="$RES(ALARM: $(grep -m1 '^VIOLATION' $ROOT/$NAME.$P.txt | sed 's/.*obligation=//' | cut -c1-120))"; fi
  done
  echo "NEUTRAL $NAME$RES"
  git -C /repo worktree remove --force $WT; rm -rf $ROOT/out_$NAME
done | tee $ROOT/summary.txt
cp $ROOT/summary.txt /verif/neutral/NEUTRAL_LAST_RUN.txt
grep -q "ALARM\|ERROR" $ROOT/summary.txt && BAD=1
rm -rf $ROOT; git -C /repo worktree prune
[ $BAD -eq 0 ]
