#!/usr/bin/env python3
# Generates the task text for a mutation sub-agent: usage agent_prompt.py <id> <anchors> <test pkgs> [hint]
import sys, json
pid, anchors, pkgs = sys.argv[1], sys.argv[2], sys.argv[3]
demohint = sys.argv[4] if len(sys.argv) > 4 else ""
p = [json.loads(l) for l in open('/verif/properties.jsonl') if json.loads(l)['id'] == pid][0]
prop = "%s: %s\n\n%s\n\nQuantifier: %s\n" % (p['id'], p['title'], p['statement'], p['quantifier']['text'])
print(f'''You are helping test a verification tool. Your job: craft ONE realistic, subtle code change ("seeded defect") to a Go codebase that BREAKS a stated semantic property while the code still compiles and the existing unit tests still pass, plus a small demonstration test that fails with your change and passes without it.

Codebase: tellor-io/layer (Cosmos SDK chain, Go). You have your own scratch git worktree at /tmp/wt_{pid} (a checkout of the repository). Work ONLY inside /tmp/wt_{pid} and write your outputs to /tmp/seed_{pid}/. Do NOT touch /repo or /verif (do not even read /verif).

The property:
{prop}
Relevant code: {anchors}

Requirements for the change:
- It must be a plausible edit a developer could make (off-by-one, wrong comparison operator, wrong variable, missed case, swapped operands, wrong constant, rounding mode, dropped update for one case, boundary condition, etc.), NOT a blatant deletion of a whole check.
- Prefer changes that need something specific to manifest (an unusual input, a boundary value, a tie, a multi-step sequence, a particular timing, two sites that each look fine alone) rather than ones that ordinary use would expose at once.
- The code must still compile (`go build ./...` for the touched packages) and the EXISTING tests of the touched packages must still pass (run e.g. `go test -count=1 -vet=off {pkgs}`).
- Do not modify existing tests.

Environment: no network. Before every go command run: `export GOFLAGS=-mod=mod GOPROXY=off GOSUMDB=off GOTOOLCHAIN=local`. Builds/tests work offline. testutil/keeper has keeper constructors with mocks (OracleKeeper, ReporterKeeper, DisputeKeeper, BridgeKeeper, MintKeeper); look at existing *_test.go files next to the code for how to call it. {demohint}

Deliverables in /tmp/seed_{pid}/ (create the directory):
1. patch.diff - output of `git -C /tmp/wt_{pid} diff` restricted to the production source file(s) you changed (NOT including your demo test file, and not including any deleted zz_*_verif.go files which are already absent in your worktree). It must apply with `git apply` to a clean checkout.
2. demo_test.go - a new Go test file (state in meta.json which package directory it must be placed in) containing a test named TestSeed{pid}... that FAILS with your change applied and PASSES on the unchanged code.
3. meta.json - {{"property":"{pid}","summary":"what the change does","needs":"what specific circumstance is needed for the defect to manifest","files_changed":[...],"demo_dir":"<package dir>","demo_run":"go test -count=1 -vet=off -run TestSeed{pid} ./<package dir>/","existing_tests_run":"the command(s) you ran for existing tests and their result"}}
Verify everything yourself: run the demo with the change (must fail), revert the production change (e.g. git apply -R) and run the demo again (must pass), re-apply the change, run the existing tests (must pass). Leave the worktree with your production change applied and the demo test file present. Finally report briefly what you did.''')
