#!/bin/bash
# seedcheck2.sh <seed-dir-in-/tmp> <name> <property> [extra properties...]
# Like seedcheck.sh, but works entirely in a scratch worktree of /repo's HEAD (GOVC_REPO / GOVC_OUT), so several
# seeds can be confirmed in parallel and /repo and /verif/evidence are never touched.
set -u
export GOFLAGS=-mod=mod GOPROXY=off GOSUMDB=off GOTOOLCHAIN=local
SRC=$1; NAME=$2; shift 2; PROPS="$@"
OUT=/verif/seeded/$NAME
WT=/tmp/wtv_$NAME
mkdir -p $OUT
cp $SRC/patch.diff $OUT/patch.diff
cp $SRC/demo_test.go $OUT/demo_test.go
DEMODIR=$(python3 -c "import json;print(json.load(open('$SRC/meta.json'))['demo_dir'])")
DEMORUN=$(python3 -c "import json;print(json.load(open('$SRC/meta.json'))['demo_run'])")
git -C /repo worktree add -q --detach $WT HEAD || exit 2
cd $WT
cp $OUT/demo_test.go $DEMODIR/zz_seed_demo_test.go
$DEMORUN > $OUT/demo_unchanged.txt 2>&1; R0=$?
git apply $OUT/patch.diff || { echo "PATCH DOES NOT APPLY $NAME"; cd /; git -C /repo worktree remove --force $WT; exit 2; }
$DEMORUN > $OUT/demo_changed.txt 2>&1; R1=$?
rm $DEMODIR/zz_seed_demo_test.go
PKGS=$(git diff --name-only | xargs -n1 dirname | sort -u | sed 's|^|./|' | tr '\n' ' ')
go build ./... > $OUT/build.txt 2>&1; RB=$?
go test -count=1 -vet=off $PKGS > $OUT/existing_tests.txt 2>&1; RT=$?
DET=""
if [ $R0 -eq 0 ] && [ $R1 -ne 0 ] && [ $RB -eq 0 ] && [ $RT -eq 0 ]; then
  for P in $PROPS; do
    (cd /verif && GOVC_REPO=$WT GOVC_OUT=/tmp/out_$NAME ./bin/govc check $P > $OUT/check_$P.txt 2>&1); RC=$?
    DET="$DET $P:exit$RC"
  done
else
  echo "SEED NOT CONFIRMED $NAME demo_unchanged_exit=$R0 demo_changed_exit=$R1 build_exit=$RB existing_tests_exit=$RT"
fi
cd /; git -C /repo worktree remove --force $WT; rm -rf /tmp/out_$NAME
python3 - <<PY
import json
m=json.load(open('$SRC/meta.json'))
m.update({"confirmed_by_me":{"demo_unchanged_exit":$R0,"demo_changed_exit":$R1,"build_exit":$RB,"existing_tests_exit":$RT,"existing_tests_cmd":"go test -count=1 -vet=off $PKGS","checks":"$DET".split()}})
json.dump(m,open('$OUT/meta.json','w'),indent=1)
PY
echo "RESULT $NAME:$DET  $(grep -h '^VIOLATION' $OUT/check_*.txt 2>/dev/null | sed 's/.*obligation=//' | cut -c1-160 | head -2 | tr '\n' ';')"
