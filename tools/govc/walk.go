package main

// Range walks of cosmossdk.io/collections (trusted specification T3):
//
//   rng := collections.NewPrefixedPairRange[[]byte, uint64](p).EndExclusive(x).Descending()   (or new(collections.Range[uint64])...)
//   err := k.Store.Walk(ctx, rng, func(key, value) (stop bool, err error) {...})
//
// Walk visits, in increasing (Descending: decreasing) order of the last key component t, exactly the stored
// keys (p, t) -- or t for a plain Range[uint64] -- with lo <= t < hi, where StartInclusive(x): lo = x,
// StartExclusive(x): lo = x+1, EndInclusive(x): hi = x+1, EndExclusive(x): hi = x (defaults 0 and 2^64), and
// calls the callback on each until it returns stop or an error; it returns the callback's error.
// (collections v0.4.0 iter.go / pair.go; Iterate's ErrInvalidIterator for start > end is not modelled: listed.)
// The range builders mutate and return their receiver, so the builder chain and the Walk must be in one
// basic block (otherwise the function is outside the subset).

import (
	"fmt"
	"go/types"

	"golang.org/x/tools/go/ssa"
)

type rangeInfo struct {
	prefix string // key term of the first component ("" for Range[K])
	lo, hi string // bounds on the last component: lo <= t < hi
	desc   bool
	blk    *ssa.BasicBlock
}

func stripIface(v ssa.Value) ssa.Value {
	for {
		switch x := v.(type) {
		case *ssa.MakeInterface:
			v = x.X
			continue
		case *ssa.ChangeType:
			v = x.X
			continue
		case *ssa.ChangeInterface:
			v = x.X
			continue
		}
		return v
	}
}

func (fr *Frame) rangeOf(c *callCtx, v ssa.Value) *rangeInfo {
	v = stripIface(v)
	if fr.ranges == nil {
		fr.ranges = map[ssa.Value]*rangeInfo{}
	}
	if r, ok := fr.ranges[v]; ok {
		return r
	}
	if a, ok := v.(*ssa.Alloc); ok {
		// new(collections.Range[K]): the zero range
		r := &rangeInfo{lo: "0", hi: "18446744073709551616", blk: a.Block()}
		fr.ranges[v] = r
		return r
	}
	return nil
}

func init() {
	libSpecs[collPkg+".NewPrefixedPairRange"] = func(c *callCtx) Val {
		e := c.e()
		if c.fr.ranges == nil {
			c.fr.ranges = map[ssa.Value]*rangeInfo{}
		}
		v := e.freshVal(c.st, "rng", c.rt)
		if iv, ok := c.instr.(ssa.Value); ok {
			c.fr.ranges[iv] = &rangeInfo{prefix: e.keyTerm(c.st, c.args[0]), lo: "0", hi: "18446744073709551616", blk: c.instr.Block()}
		}
		return v
	}
	upd := func(f func(e *Engine, r *rangeInfo, c *callCtx)) specFn {
		return func(c *callCtx) Val {
			e := c.e()
			r := c.fr.rangeOf(c, c.common.Args[0])
			if r == nil || r.blk != c.instr.Block() {
				e.unsupported("collections range built across basic blocks or from an unknown value")
				return c.ret(c.args[0].S)
			}
			if len(c.args) > 1 && kindOf(c.args[1].T) != kInt {
				e.unsupported("collections range bound on a non-integer key component")
				return c.ret(c.args[0].S)
			}
			f(e, r, c)
			if iv, ok := c.instr.(ssa.Value); ok {
				c.fr.ranges[iv] = r
			}
			return c.ret(c.args[0].S)
		}
	}
	for _, recv := range []string{"(*" + collPkg + ".PairRange[K1, K2]).", "(*" + collPkg + ".Range[K])."} {
		libSpecs[recv+"StartInclusive"] = upd(func(e *Engine, r *rangeInfo, c *callCtx) { r.lo = c.args[1].S })
		libSpecs[recv+"StartExclusive"] = upd(func(e *Engine, r *rangeInfo, c *callCtx) {
			r.lo = e.vc.define("rlo", "Int", app("+", c.args[1].S, "1"))
		})
		libSpecs[recv+"EndInclusive"] = upd(func(e *Engine, r *rangeInfo, c *callCtx) {
			r.hi = e.vc.define("rhi", "Int", app("+", c.args[1].S, "1"))
		})
		libSpecs[recv+"EndExclusive"] = upd(func(e *Engine, r *rangeInfo, c *callCtx) { r.hi = c.args[1].S })
		libSpecs[recv+"Descending"] = upd(func(e *Engine, r *rangeInfo, c *callCtx) { r.desc = true })
	}
	walk := func(c *callCtx) Val {
		e := c.e()
		g := e.ghostOfValue(c.common.Args[0])
		cb := c.args[3]
		if g == nil || g.kind != "map" || cb.Clo == nil {
			e.note("unmodelled", "Walk on an untraceable store or with a non-literal callback in "+c.fr.fn.Name())
			return c.fr.closureEffectsHavoc(c)
		}
		var r *rangeInfo
		if cst, ok := stripIface(c.common.Args[2]).(*ssa.Const); ok && cst.Value == nil {
			r = &rangeInfo{lo: "0", hi: "18446744073709551616", blk: c.instr.Block()}
			if name, _ := pairArgs(g.kt); name != "" {
				r = nil // whole store of a composite key: order over the full key is not modelled
			}
		} else {
			r = c.fr.rangeOf(c, c.common.Args[2])
		}
		if r == nil || r.blk != c.instr.Block() {
			e.note("unmodelled", "Walk with a range that is not a literal builder chain in "+c.fr.fn.Name())
			return c.fr.closureEffectsHavoc(c)
		}
		name, targs := pairArgs(g.kt)
		var key func(t string) string
		switch {
		case r.prefix == "" && name == "" && kindOf(g.kt) == kInt:
			key = func(t string) string { return t }
		case r.prefix != "" && name == "Pair" && kindOf(targs.At(1)) == kInt:
			key = func(t string) string { return app("mk_"+g.ksort, r.prefix, t) }
		default:
			e.note("unmodelled", "Walk over a key shape that is not (prefix, uint64) or uint64 in "+c.fr.fn.Name())
			return c.fr.closureEffectsHavoc(c)
		}
		if !e.vc.declared["walk"] {
			e.vc.declared["walk"] = true
			e.vc.declFun("wlen", []string{"Int"}, "Int")
			e.vc.declFun("wk", []string{"Int", "Int"}, "Int")
			e.vc.declFun("winv", []string{"Int", "Int"}, "Int")
		}
		wid := e.alloc(c.st)
		n := e.vc.define("wn", "Int", app("wlen", wid))
		d0 := e.heap(c.st, g.name+"_d", e.heapSorts[g.name+"_d"])
		wk := func(j string) string { return app("wk", wid, j) }
		lt := "<"
		if r.desc {
			lt = ">"
		}
		e.assumeIn(c.st, fmt.Sprintf("(forall ((j Int)) (! (=> (and (<= 0 j) (< j %s)) (and (<= %s %s) (< %s %s) (select %s %s))) :pattern (%s)))",
			n, r.lo, wk("j"), wk("j"), r.hi, d0, key(wk("j")), wk("j")))
		e.assumeIn(c.st, fmt.Sprintf("(forall ((i Int) (j Int)) (! (=> (and (<= 0 i) (< i j) (< j %s)) (%s %s %s)) :pattern (%s %s)))",
			n, lt, wk("i"), wk("j"), wk("i"), wk("j")))
		e.assumeIn(c.st, fmt.Sprintf("(forall ((t Int)) (! (=> (and (select %s %s) (<= %s t) (< t %s)) (and (<= 0 (winv %s t)) (< (winv %s t) %s) (= (wk %s (winv %s t)) t))) :pattern ((select %s %s))))",
			d0, key("t"), r.lo, r.hi, wid, wid, n, wid, wid, d0, key("t")))
		ord := c.fr.iterOrdinal(c.instr)
		if c.fr.iterKey == nil {
			c.fr.iterKey = map[int]func(string) string{}
		}
		c.fr.iterKey[ord] = wk
		cbSig := cb.Clo.fn.Signature
		spec := iterSpec{name: "walk", n: n, stopIdx: 0, errIdx: 1,
			elem: func(k string) []Val {
				kt := key(wk(k))
				v := e.vc.define("wval", g.vsort, app("select", e.heap(c.st, g.name+"_v", e.heapSorts[g.name+"_v"]), kt))
				e.vc.assume(and(e.typeInv(v, g.vt), e.allocInv(c.st, v, g.vt)))
				return []Val{{S: e.vc.define("wkey", g.ksort, kt), T: cbSig.Params().At(0).Type()}, {S: v, T: cbSig.Params().At(1).Type()}}
			}}
		er := c.fr.iterate(c, cb.Clo, spec)
		return c.ret(er)
	}
	libSpecs["("+collPkg+".Map[K, V]).Walk"] = walk
	libSpecs["(*"+collPkg+".IndexedMap[PrimaryKey, Value, Idx]).Walk"] = walk
}

var _ = types.Typ
