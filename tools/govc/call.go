package main

import (
	"fmt"
	"os"
	"go/token"
	"go/types"
	"sort"
	"strings"

	"golang.org/x/tools/go/ssa"
)

type callCtx struct {
	fr     *Frame
	st     *State
	instr  ssa.CallInstruction
	common *ssa.CallCommon
	args   []Val // for methods: receiver first
	rt     types.Type
	name   string
	pos    token.Pos
}

func (c *callCtx) e() *Engine { return c.fr.e }

// result type helper: tuple element types
func resultTypes(sig *types.Signature) []types.Type {
	var ts []types.Type
	for i := 0; i < sig.Results().Len(); i++ {
		ts = append(ts, sig.Results().At(i).Type())
	}
	return ts
}

func (e *Engine) freshVal(st *State, hint string, t types.Type) Val {
	if tt, ok := t.(*types.Tuple); ok {
		v := Val{T: t}
		for i := 0; i < tt.Len(); i++ {
			v.Tup = append(v.Tup, e.freshVal(st, fmt.Sprintf("%s_%d", hint, i), tt.At(i).Type()))
		}
		return v
	}
	c := e.vc.fresh(hint, e.vc.sortOf(t))
	e.vc.assume(e.typeInv(c, t))
	if e.freshResultsAlias {
		if kindOf(t) == kPtr || kindOf(t) == kMap {
			e.assumeIn(st, app("<", c, st.top))
		}
		if kindOf(t) == kSlice {
			e.assumeIn(st, app("<", app("sptr", c), st.top))
		}
		return Val{S: c, T: t}
	}
	// a returned reference is nil or a newly allocated object (results of unmodelled calls are assumed not to
	// alias memory the caller already holds)
	if kindOf(t) == kPtr || kindOf(t) == kMap {
		ref := e.alloc(st)
		e.assumeIn(st, or(eq(c, "0"), eq(c, ref)))
	}
	if kindOf(t) == kSlice {
		ref := e.alloc(st)
		e.assumeIn(st, or(eq(app("sptr", c), "0"), eq(app("sptr", c), ref)))
	}
	return Val{S: c, T: t}
}

func mkResult(rt types.Type, vals ...Val) Val {
	if tt, ok := rt.(*types.Tuple); ok && tt.Len() != 1 {
		return Val{T: rt, Tup: vals}
	}
	if len(vals) == 1 {
		return vals[0]
	}
	return Val{T: rt}
}

func (fr *Frame) call(x *ssa.Call, st *State) Val {
	return fr.doCall(x, &x.Call, st, x.Type())
}

func (fr *Frame) doCall(instr ssa.CallInstruction, cc *ssa.CallCommon, st *State, rt types.Type) Val {
	e := fr.e
	var args []Val
	ctx := &callCtx{fr: fr, st: st, instr: instr, common: cc, rt: rt, pos: instr.Pos()}
	if b, ok := cc.Value.(*ssa.Builtin); ok {
		for _, a := range cc.Args {
			args = append(args, fr.get(a))
		}
		ctx.args = args
		return fr.builtin(b, ctx)
	}
	if cc.IsInvoke() {
		recv := fr.get(cc.Value)
		args = append(args, recv)
		for _, a := range cc.Args {
			args = append(args, fr.get(a))
		}
		ctx.args = args
		ctx.name = "(" + typeKeyFull(cc.Value.Type()) + ")." + cc.Method.Name()
		return fr.invoke(ctx)
	}
	for _, a := range cc.Args {
		args = append(args, fr.get(a))
	}
	ctx.args = args
	if callee := cc.StaticCallee(); callee != nil {
		if callee.Parent() != nil || len(callee.FreeVars) > 0 {
			// direct call of a closure value
			fv := fr.get(cc.Value)
			if fv.Clo != nil {
				return fr.inline(ctx, fv.Clo.fn, fv.Clo.bindings, args)
			}
		}
		return fr.staticCall(ctx, callee)
	}
	fv := fr.get(cc.Value)
	if fv.Clo != nil && fv.Clo.unknown {
		name := fr.valName(cc.Value)
		ctx.name = "dyn:" + name
		e.note("unmodelled", "call through a loop-carried function variable "+name+" (result and all module stores havocked)")
		return fr.havocCall(ctx, true)
	}
	if fv.Clo != nil && len(fv.Clo.alts) > 0 {
		// one execution per possible callee, merged
		var conds []string
		var sts []*State
		var vals []Val
		for _, alt := range fv.Clo.alts {
			s2 := st.clone()
			s2.cond = e.vc.define("callalt", "Bool", and(st.cond, alt.cond))
			c2 := *ctx
			c2.st = s2
			c2.args = append([]Val{}, args...)
			vals = append(vals, fr.callClosure(&c2, alt.clo, c2.args))
			conds = append(conds, s2.cond)
			sts = append(sts, s2)
		}
		m := e.mergeStates(conds, sts)
		*st = *m
		res := vals[len(vals)-1]
		for j := len(vals) - 2; j >= 0; j-- {
			res = fr.iteVal(conds[j], vals[j], res)
		}
		return res
	}
	if fv.Clo != nil {
		return fr.callClosure(ctx, fv.Clo, args)
	}
	if false {
		if fv.Clo.recv != nil {
			args = append([]Val{*fv.Clo.recv}, args...)
			ctx.args = args
			return fr.staticCall(ctx, fv.Clo.fn)
		}
		if len(fv.Clo.fn.Blocks) > 0 && (fv.Clo.fn.Parent() != nil || len(fv.Clo.fn.FreeVars) > 0) {
			return fr.inline(ctx, fv.Clo.fn, fv.Clo.bindings, args)
		}
		return fr.staticCall(ctx, fv.Clo.fn)
	}
	// dynamic call through a function value (parameter / field)
	name := fr.valName(cc.Value)
	ctx.name = "dyn:" + name
	e.setHeap(st, "called_"+mangle(name), "Bool", "true")
	e.note("unmodelled", "dynamic call through function value "+name+" (result and all module stores havocked; ghost called("+name+") set)")
	return fr.havocCall(ctx, true)
}

// callClosure calls one concrete closure value.
func (fr *Frame) callClosure(ctx *callCtx, clo *closureVal, args []Val) Val {
	if clo.recv != nil {
		args = append([]Val{*clo.recv}, args...)
		ctx.args = args
		return fr.staticCall(ctx, clo.fn)
	}
	if len(clo.fn.Blocks) > 0 && (clo.fn.Parent() != nil || len(clo.fn.FreeVars) > 0) {
		return fr.inline(ctx, clo.fn, clo.bindings, args)
	}
	return fr.staticCall(ctx, clo.fn)
}

// closureMods: heaps a closure created in this frame's function may modify; stores through captured variables
// are attributed to the captured cell (a local of the enclosing function) instead of the whole heap.
func (fr *Frame) closureMods(mc *ssa.MakeClosure, depth int, mods map[string]*modInfo) {
	fn := mc.Fn.(*ssa.Function)
	if fr.fvBind == nil {
		fr.fvBind = map[*ssa.Function][]ssa.Value{}
	}
	if mc.Parent() == fr.fn {
		fr.fvBind[fn] = mc.Bindings
	}
	fr.modsOf(fn, nil, depth, mods, false)
}

func typeKeyFull(t types.Type) string {
	return types.TypeString(t, func(p *types.Package) string { return p.Path() })
}

// dropped calls: no effect on verified state (DESIGN §2.1)
func isDropped(name string) bool {
	switch {
	case strings.HasPrefix(name, "github.com/cosmos/cosmos-sdk/telemetry."),
		strings.HasPrefix(name, "github.com/hashicorp/go-metrics."),
		strings.HasPrefix(name, "(cosmossdk.io/log.Logger)."),
		strings.HasPrefix(name, "(*github.com/cosmos/cosmos-sdk/types.EventManager)."),
		strings.HasPrefix(name, "(github.com/cosmos/cosmos-sdk/types.EventManagerI)."),
		strings.HasPrefix(name, "github.com/cosmos/cosmos-sdk/types.NewEvent"),
		strings.HasPrefix(name, "github.com/cosmos/cosmos-sdk/types.NewAttribute"),
		strings.HasPrefix(name, "(github.com/cosmos/cosmos-sdk/types.Event)."),
		strings.HasPrefix(name, "fmt.Print"),
		strings.HasPrefix(name, "fmt.Sprint"),
		strings.HasPrefix(name, "log."),
		name == "time.Now", name == "time.Since":
		return true
	}
	return false
}

func (fr *Frame) staticCall(ctx *callCtx, callee *ssa.Function) Val {
	e := fr.e
	name := callee.String()
	if o := callee.Origin(); o != nil {
		name = o.String()
	}
	ctx.name = name
	e.calledFns[name] = true
	if h, ok := libSpecs[name]; ok {
		return h(ctx)
	}
	if h := prefixSpec(name); h != nil {
		return h(ctx)
	}
	if isDropped(name) {
		return fr.pureHavoc(ctx)
	}
	key := ""
	inRepo := strings.HasPrefix(fnPkgPath(callee), modPath)
	if inRepo {
		key = funcKey(callee)
		if strings.HasSuffix(callee.Name(), "Logger") && callee.Signature.Recv() != nil {
			return fr.pureHavoc(ctx)
		}
		if strings.HasPrefix(key, "daemons/pricefeed/metrics.GetLabelFor") || strings.HasPrefix(key, "lib/metrics.GetLabelFor") {
			// telemetry label constructors (telemetry is dropped): result unconstrained, no effect
			return fr.pureHavoc(ctx)
		}
		if c := e.prog.Contracts[key]; c != nil && callee != e.root && !(c.Uses["inline_at_calls"] && len(callee.Blocks) > 0 && fr.depth < e.maxInline && !fr.onStack(callee)) {
			return fr.logRet(ctx, callee, fr.contractCall(ctx, callee, c))
		}
		if len(callee.Blocks) > 0 && fr.depth < e.maxInline && !fr.onStack(callee) {
			fr.logCall(ctx, callee)
			return fr.logRet(ctx, callee, fr.inline(ctx, callee, nil, ctx.args))
		}
		e.note("unmodelled", "repo call not inlined (depth/recursion): "+key)
		fr.logCall(ctx, callee)
		return fr.havocCall(ctx, true)
	}
	if pureLibFunc(name) {
		e.note("approx", "pure library function without precise spec (result unconstrained, arguments not written): "+name)
		return fr.pureHavoc(ctx)
	}
	if readOnlyStoreOp(name) {
		// iteration and lookup operations of collections: results unconstrained, stores unchanged; callbacks may
		// write what they capture
		e.note("approx", "collections read operation without precise spec (result havocked, store unchanged): "+name)
		return fr.closureEffectsHavoc(ctx)
	}
	e.note("unmodelled", "library call without spec: "+name)
	return fr.havocCall(ctx, false)
}

// library functions that do not write through their arguments and have no other effect on modelled state
var pureLibPrefixes = []string{
	"github.com/ethereum/go-ethereum/crypto.Keccak256", "encoding/hex.", "strconv.", "crypto/sha256.Sum256",
	"(github.com/ethereum/go-ethereum/accounts/abi.Arguments).Pack", "(github.com/ethereum/go-ethereum/accounts/abi.Arguments).Unpack",
	"github.com/ethereum/go-ethereum/accounts/abi.NewType", "strings.", "bytes.Equal", "bytes.Compare", "bytes.HasPrefix", "bytes.TrimPrefix",
	"(cosmossdk.io/errors.Error).Error", "(*cosmossdk.io/errors.Error).Error", "(*cosmossdk.io/errors.Error).Is", "github.com/ethereum/go-ethereum/common.",
	"(github.com/ethereum/go-ethereum/common.Address).", "(encoding/binary.bigEndian).Uint", "github.com/cosmos/cosmos-sdk/types.ValAddressFromBech32",
	"github.com/cosmos/cosmos-sdk/types.ConsAddressFromBech32", "github.com/cosmos/cosmos-sdk/types.ValAddressFromHex", "(time.Time).", "(time.Duration).",
	"math/big.NewInt", "(*math/big.Int).", "regexp.", "unicode.", "errors.As", "errors.Unwrap", "github.com/ethereum/go-ethereum/crypto.SigToPub",
	"github.com/ethereum/go-ethereum/crypto.PubkeyToAddress", "github.com/ethereum/go-ethereum/crypto.Ecrecover", "crypto/sha256.", "reflect.DeepEqual",
	"(github.com/cosmos/cosmos-sdk/types.AccAddress).", "(github.com/cosmos/cosmos-sdk/types.ValAddress).", "(github.com/cosmos/cosmos-sdk/types.ConsAddress).",
	"(github.com/cosmos/cosmos-sdk/types.Coin).", "(github.com/cosmos/cosmos-sdk/types.Coins).", "(github.com/cosmos/cosmos-sdk/types.DecCoin).",
	"(cosmossdk.io/math.Int).", "(cosmossdk.io/math.LegacyDec).", "(cosmossdk.io/math.Uint).", "cosmossdk.io/math.",
	"(github.com/cosmos/cosmos-sdk/x/staking/types.Validator).", "(github.com/cosmos/cosmos-sdk/x/staking/types.Delegation).",
	"github.com/cosmos/cosmos-sdk/types/errors.", "github.com/cosmos/gogoproto/proto.EnumName", "github.com/cosmos/cosmos-sdk/types.Bech32ifyAddressBytes", "github.com/cosmos/cosmos-sdk/types.GetConfig", "(*github.com/cosmos/cosmos-sdk/types.Config).GetBech32", "sort.SearchInts", "sort.SearchStrings", "slices.Contains", "slices.Index",
}

func pureLibFunc(name string) bool {
	for _, p := range pureLibPrefixes {
		if strings.HasPrefix(name, p) {
			return true
		}
	}
	return false
}

var readOnlyMethods = map[string]bool{"Walk": true, "Iterate": true, "IterateRaw": true, "MatchExact": true, "Valid": true, "Next": true, "Key": true,
	"Value": true, "KeyValue": true, "PrimaryKey": true, "FullKey": true, "Close": true, "Keys": true, "Values": true, "KeyValues": true, "PrimaryKeys": true,
	"CollectValues": true, "CollectKeyValues": true, "Descending": true, "EndInclusive": true, "EndExclusive": true, "StartInclusive": true,
	"StartExclusive": true, "Prefix": true, "NewPrefixedPairRange": true, "NewPrefixedTripleRange": true, "NewSuperPrefixedTripleRange": true, "PairPrefix": true,
	"K1": true, "K2": true, "K3": true, "ScanValues": true, "ScanKeyValues": true, "Reference": true}

func readOnlyStoreOp(name string) bool {
	if !strings.Contains(name, "cosmossdk.io/collections") {
		return false
	}
	return readOnlyMethods[lastName(name)]
}


// applyClosureEffects havocs everything a closure value may write when it is called by unknown code:
// captured variables are havocked cell by cell, other stores at heap level; returns true if module stores are written.
func (fr *Frame) applyClosureEffects(st *State, clo *closureVal) bool {
	e := fr.e
	ghost := false
	sub := &Frame{e: e, fn: clo.fn, regs: map[ssa.Value]Val{}, bindings: clo.bindings, iters: map[ssa.Value]*iterVal{}}
	mods := map[string]*modInfo{}
	sub.modsOf(clo.fn, nil, 1, mods, true)
	var ks []string
	for k := range mods {
		ks = append(ks, k)
	}
	sort.Strings(ks)
	for _, k := range ks {
		if k == "G_*" {
			ghost = true
			continue
		}
		srt, ok := e.heapSorts[k]
		if !ok {
			continue
		}
		m := mods[k]
		if m.all {
			e.setHeap(st, k, srt, e.vc.fresh(k, srt))
			continue
		}
		// element sort of "(Array Int X)"
		el := strings.TrimSuffix(strings.TrimPrefix(srt, "(Array Int "), ")")
		for _, r := range m.refs {
			e.setHeap(st, k, srt, app("store", e.heap(st, k, srt), r, e.vc.fresh("hv", el)))
		}
	}
	return ghost
}

// closureEffectsHavoc: a pure library call that may invoke the closures passed to it.
func (fr *Frame) closureEffectsHavoc(ctx *callCtx) Val {
	e := fr.e
	for _, a := range ctx.args {
		if a.Clo == nil {
			continue
		}
		if fr.applyClosureEffects(ctx.st, a.Clo) {
			e.havocGhost(ctx.st)
		}
	}
	return e.freshVal(ctx.st, "r_"+lastName(ctx.name), ctx.rt)
}

func (fr *Frame) onStack(fn *ssa.Function) bool {
	for f := fr; f != nil; f = f.parentFrame() {
		if f.fn == fn {
			return true
		}
	}
	return false
}

var frameParents = map[*Frame]*Frame{}

func (fr *Frame) parentFrame() *Frame { return frameParents[fr] }

// pureHavoc: result unconstrained, no side effects.
func (fr *Frame) pureHavoc(ctx *callCtx) Val {
	return fr.e.freshVal(ctx.st, "r_"+lastName(ctx.name), ctx.rt)
}

func lastName(s string) string {
	if i := strings.LastIndexAny(s, "./)"); i >= 0 {
		return s[i+1:]
	}
	return s
}

// havocCall: unknown callee: results fresh; memory reachable from pointer-like arguments havocked (type-level);
// if ghost, all module stores are havocked too.
func (fr *Frame) havocCall(ctx *callCtx, ghost bool) Val {
	e := fr.e
	for i, a := range ctx.args {
		e.havocArg(ctx.st, a)
		// a closure argument may be called by the callee: everything it can write is havocked
		if a.Clo != nil {
			if fr.applyClosureEffects(ctx.st, a.Clo) {
				ghost = true
			}
		}
		// an unknown operation on a collections store may write it
		if ctx.common != nil {
			var av ssa.Value
			if ctx.common.IsInvoke() {
				if i == 0 {
					av = ctx.common.Value
				} else if i-1 < len(ctx.common.Args) {
					av = ctx.common.Args[i-1]
				}
			} else if i < len(ctx.common.Args) {
				av = ctx.common.Args[i]
			}
			if mi, ok := av.(*ssa.MakeInterface); ok {
				// a pointer, slice or map passed as interface{} (json.Unmarshal(data, &v), codec.Unmarshal, ...):
				// the callee may write through it
				switch kindOf(mi.X.Type()) {
				case kPtr, kSlice, kMap:
					e.havocArg(ctx.st, fr.get(mi.X))
				}
			}
			if av != nil {
				if g := e.ghostOfValue(av); g != nil {
					for _, suf := range []string{"_v", "_d"} {
						if srt, ok := e.heapSorts[g.name+suf]; ok {
							e.setHeap(ctx.st, g.name+suf, srt, e.vc.fresh(g.name+suf, srt))
						}
					}
				}
			}
		}
	}
	if ghost {
		e.havocGhost(ctx.st)
	}
	return e.freshVal(ctx.st, "r_"+lastName(ctx.name), ctx.rt)
}

func (e *Engine) havocReachable(st *State, t types.Type, seen map[string]bool) {
	for _, n := range e.reachableHeaps(t) {
		srt := e.heapSorts[n]
		e.setHeap(st, n, srt, e.vc.fresh(n, srt))
	}
}

// havocArg: an unknown callee may write through the references it is given. The object / backing array /
// map that the argument itself refers to is havocked precisely (only that cell); anything reachable through
// references stored inside it is havocked at type level.
func (e *Engine) havocArg(st *State, v Val) {
	if v.T == nil || v.S == "" || v.S == "addr" {
		if v.T != nil {
			e.havocReachable(st, v.T, map[string]bool{})
		}
		return
	}
	t := types.Unalias(v.T)
	switch kindOf(t) {
	case kSlice:
		el := t.Underlying().(*types.Slice).Elem()
		hn, hs := e.vc.arrHeapName(el)
		h := e.heap(st, hn, hs)
		e.setHeap(st, hn, hs, app("store", h, app("sptr", v.S), e.vc.fresh("hv", "(Array Int "+e.vc.sortOf(el)+")")))
		e.havocReachable(st, el, map[string]bool{})
	case kPtr:
		el := t.Underlying().(*types.Pointer).Elem()
		if at, ok := types.Unalias(el).Underlying().(*types.Array); ok {
			hn, hs := e.vc.arrHeapName(at.Elem())
			h := e.heap(st, hn, hs)
			e.setHeap(st, hn, hs, app("store", h, v.S, e.vc.fresh("hv", "(Array Int "+e.vc.sortOf(at.Elem())+")")))
			return
		}
		hn, hs := e.vc.heapName(el)
		h := e.heap(st, hn, hs)
		e.setHeap(st, hn, hs, app("store", h, v.S, e.vc.fresh("hv", e.vc.sortOf(el))))
		if kindOf(el) == kStruct {
			ss := e.vc.structInfo(el)
			for _, ft := range ss.ftypes {
				e.havocReachable(st, ft, map[string]bool{})
			}
		}
	case kMap:
		mt := t.Underlying().(*types.Map)
		vn, vs, dn, ds := e.vc.mapHeapName(mt.Key(), mt.Elem())
		hv, hd := e.heap(st, vn, vs), e.heap(st, dn, ds)
		e.setHeap(st, vn, vs, app("store", hv, v.S, e.vc.fresh("hv", fmt.Sprintf("(Array %s %s)", e.vc.sortOf(mt.Key()), e.vc.sortOf(mt.Elem())))))
		e.setHeap(st, dn, ds, app("store", hd, v.S, e.vc.fresh("hv", fmt.Sprintf("(Array %s Bool)", e.vc.sortOf(mt.Key())))))
		e.havocReachable(st, mt.Elem(), map[string]bool{})
	case kStruct:
		ss := e.vc.structInfo(t)
		for i, ft := range ss.ftypes {
			switch kindOf(ft) {
			case kSlice, kPtr, kMap, kStruct:
				e.havocArg(st, Val{S: app(ss.fields[i], v.S), T: ft})
			}
		}
	case kIface:
		e.note("approx", "interface-typed arguments of unmodelled calls whose dynamic value is not visible at the call site are assumed not to be written through")
	}
}

func (e *Engine) havocGhost(st *State) {
	var ks []string
	for k := range e.heapSorts {
		if strings.HasPrefix(k, "G_") {
			ks = append(ks, k)
		}
	}
	sort.Strings(ks)
	for _, k := range ks {
		e.setHeap(st, k, e.heapSorts[k], e.vc.fresh(k, e.heapSorts[k]))
	}
	e.ghostHavocked = true
}

// callMods: heaps a call may modify (for loop havoc), syntactic over-approximation.
func (e *Engine) callMods(fr *Frame, fn *ssa.Function, x ssa.CallInstruction, depth int, mods map[string]*modInfo, own bool) {
	cc := x.Common()
	addAll := func(name string) { modAdd(mods, name, "", true) }
	addType := func(t types.Type) {
		for _, n := range e.reachableHeaps(t) {
			addAll(n)
		}
	}
	if b, ok := cc.Value.(*ssa.Builtin); ok {
		switch b.Name() {
		case "append":
			if sl, ok := types.Unalias(cc.Args[0].Type()).Underlying().(*types.Slice); ok {
				hn, hs := e.vc.arrHeapName(sl.Elem())
				e.heapSorts[hn] = hs
				modAdd(mods, hn, "", false) // allocation only
			}
		case "copy":
			if sl, ok := types.Unalias(cc.Args[0].Type()).Underlying().(*types.Slice); ok {
				hn, hs := e.vc.arrHeapName(sl.Elem())
				e.heapSorts[hn] = hs
				addAll(hn)
			}
		case "delete":
			if mt, ok := types.Unalias(cc.Args[0].Type()).Underlying().(*types.Map); ok {
				vn, vs, dn, ds := e.vc.mapHeapName(mt.Key(), mt.Elem())
				e.heapSorts[vn], e.heapSorts[dn] = vs, ds
				addAll(vn)
				addAll(dn)
			}
		}
		return
	}
	if callee := cc.StaticCallee(); callee != nil {
		name := callee.String()
		if o := callee.Origin(); o != nil {
			name = o.String()
		}
		if m, ok := libMods[name]; ok {
			for _, n := range m(e, cc) {
				addAll(n)
			}
			return
		}
		if _, ok := libSpecs[name]; ok && readOnlyStoreOp(name) {
			// modelled iteration (Walk): only the callback writes
			for _, a := range cc.Args {
				if mc, ok := a.(*ssa.MakeClosure); ok {
					fr.closureMods(mc, depth+1, mods)
					for _, b := range mc.Bindings {
						addType(b.Type())
					}
				}
			}
			return
		}
		if _, ok := libSpecs[name]; ok {
			return // specs without a libMods entry are pure w.r.t. the modelled heaps
		}
		if prefixSpec(name) != nil || isDropped(name) {
			return
		}
		if pureLibFunc(name) {
			return
		}
		if readOnlyStoreOp(name) {
			for _, a := range cc.Args {
				if mc, ok := a.(*ssa.MakeClosure); ok {
					fr.closureMods(mc, depth+1, mods)
					for _, b := range mc.Bindings {
						addType(b.Type())
					}
				}
			}
			return
		}
		if strings.HasPrefix(fnPkgPath(callee), modPath) {
			if strings.HasSuffix(callee.Name(), "Logger") || strings.HasPrefix(funcKey(callee), "daemons/pricefeed/metrics.GetLabelFor") || strings.HasPrefix(funcKey(callee), "lib/metrics.GetLabelFor") {
				return
			}
			if c := e.prog.Contracts[funcKey(callee)]; c != nil && !c.Uses["inline_at_calls"] {
				for _, m := range e.expandMods(c.Modifies) {
					addAll(e.modName(m))
				}
				return
			}
			if len(callee.Blocks) > 0 && depth < 4 {
				fr.modsOf(callee, nil, depth+1, mods, false)
				return
			}
			addAll("G_*")
		}
		for _, a := range cc.Args {
			addType(a.Type())
			if g := e.ghostOfValue(a); g != nil {
				addAll(g.name + "_v")
				addAll(g.name + "_d")
			}
			if mc, ok := a.(*ssa.MakeClosure); ok {
				fr.closureMods(mc, depth+1, mods)
				for _, b := range mc.Bindings {
					addType(b.Type())
				}
			}
		}
		return
	}
	if cc.IsInvoke() {
		name := "(" + typeKeyFull(cc.Value.Type()) + ")." + cc.Method.Name()
		if m, ok := invokeMods[name]; ok {
			for _, n := range m(e, cc) {
				addAll(n)
			}
			return
		}
		if _, ok := invokeSpecs[name]; ok {
			return
		}
		if strings.HasSuffix(namedPath(cc.Value.Type()), ".BankKeeper") {
			if ms, ok := bankModNames[cc.Method.Name()]; ok {
				for _, n := range ms {
					addAll(n)
				}
				return
			}
		}
		if _, ok := invokeByMethod[cc.Method.Name()]; ok {
			if ms, ok := methodMods[cc.Method.Name()]; ok {
				for _, n := range ms {
					addAll(n)
				}
				for _, a := range cc.Args {
					if mc, ok := a.(*ssa.MakeClosure); ok {
						fr.closureMods(mc, depth+1, mods)
					}
				}
				return
			}
		}
		if k := ifaceMethodKey(cc); k != "" {
			if c := e.prog.Contracts[k]; c != nil && e.bindInvoke(cc) == nil {
				// assumed contract on a dependency: its frame
				for _, m := range e.expandMods(c.Modifies) {
					addAll(e.modName(m))
				}
				return
			}
		}
		if isDropped(name) || pureInvoke(cc) {
			return
		}
		if target := e.bindInvoke(cc); target != nil && depth < 4 {
			if c := e.prog.Contracts[funcKey(target)]; c != nil {
				for _, m := range e.expandMods(c.Modifies) {
					addAll(e.modName(m))
				}
				return
			}
			fr.modsOf(target, nil, depth+1, mods, false)
			return
		}
		addAll("G_*")
		for _, a := range cc.Args {
			addType(a.Type())
		}
		return
	}
	// closure or dynamic
	if mc, ok := cc.Value.(*ssa.MakeClosure); ok {
		fr.closureMods(mc, depth+1, mods)
		return
	}
	if own {
		n := "called_" + mangle(fr.valName(cc.Value))
		e.heapSorts[n] = "Bool"
		addAll(n)
	}
	addAll("G_*")
	for _, a := range cc.Args {
		addType(a.Type())
	}
}

// reachableHeaps: names of heaps reachable from a value of type t.
func (e *Engine) reachableHeaps(t types.Type) []string {
	var out []string
	seen := map[string]bool{}
	var walk func(t types.Type)
	walk = func(t types.Type) {
		t = types.Unalias(t)
		k := typeKey(t)
		if seen[k] {
			return
		}
		seen[k] = true
		switch kindOf(t) {
		case kPtr:
			el := t.Underlying().(*types.Pointer).Elem()
			if at, ok := types.Unalias(el).Underlying().(*types.Array); ok {
				hn, hs := e.vc.arrHeapName(at.Elem())
				e.heapSorts[hn] = hs
				out = append(out, hn)
				return
			}
			hn, hs := e.vc.heapName(el)
			e.heapSorts[hn] = hs
			out = append(out, hn)
			walk(el)
		case kSlice:
			el := t.Underlying().(*types.Slice).Elem()
			hn, hs := e.vc.arrHeapName(el)
			e.heapSorts[hn] = hs
			out = append(out, hn)
			walk(el)
		case kMap:
			mt := t.Underlying().(*types.Map)
			vn, vs, dn, ds := e.vc.mapHeapName(mt.Key(), mt.Elem())
			e.heapSorts[vn], e.heapSorts[dn] = vs, ds
			out = append(out, vn, dn)
			walk(mt.Elem())
		case kStruct:
			ss := e.vc.structInfo(t)
			for _, ft := range ss.ftypes {
				walk(ft)
			}
		}
	}
	walk(t)
	return out
}

// ---------- inlining ----------

func (fr *Frame) inline(ctx *callCtx, callee *ssa.Function, bindings []Val, args []Val) Val {
	e := fr.e
	if len(callee.Blocks) == 0 {
		return fr.havocCall(ctx, false)
	}
	if fr.depth >= e.maxInline+2 {
		e.note("unmodelled", "inline depth exceeded at "+callee.String())
		return fr.havocCall(ctx, true)
	}
	sub := e.newFrame(callee, fr.depth+1)
	frameParents[sub] = fr
	sub.bindings = bindings
	sub.label = fr.lbl("via:" + callee.Name())
	st := ctx.st
	rets := sub.run(st.clone(), args)
	delete(frameParents, sub)
	if len(e.oos) > 0 {
		return Val{T: ctx.rt}
	}
	if len(rets) == 0 {
		// callee never returns (always panics): the continuation is unreachable
		st.cond = "false"
		return e.freshVal(st, "noret", ctx.rt)
	}
	var conds []string
	var sts []*State
	for _, r := range rets {
		conds = append(conds, r.cond)
		sts = append(sts, r.st)
	}
	m := e.mergeStates(conds, sts)
	*st = *m
	nres := callee.Signature.Results().Len()
	var vals []Val
	for i := 0; i < nres; i++ {
		v := rets[len(rets)-1].vals[i]
		for j := len(rets) - 2; j >= 0; j-- {
			v = fr.iteVal(rets[j].cond, rets[j].vals[i], v)
		}
		if v.S != "" && v.Clo == nil && len(v.Tup) == 0 && v.S != "addr" {
			v.S = e.vc.define("ret_"+callee.Name(), e.vc.sortOf(callee.Signature.Results().At(i).Type()), v.S)
		}
		vals = append(vals, v)
	}
	return mkResult(ctx.rt, vals...)
}

// ---------- contract calls ----------

// logRet records the results of a call of a layer function (readable in contracts as ret(F, i)).
func (fr *Frame) logRet(ctx *callCtx, calleeFn *ssa.Function, r Val) Val {
	return fr.logRetSig(ctx, sigOfFunc(calleeFn), r)
}

// calleeSig describes the callee of a call by contract: a layer function, or a method of one of layer's
// expected-keeper interfaces (assumed contract on a dependency).
type calleeSig struct {
	key, name string
	pnames    []string // receiver first
	ptypes    []types.Type
	sig       *types.Signature
}

func (c calleeSig) Name() string { return c.name }

func sigOfFunc(fn *ssa.Function) calleeSig {
	cs := calleeSig{key: funcKey(fn), name: fn.Name(), sig: fn.Signature}
	for _, p := range fn.Params {
		cs.pnames = append(cs.pnames, p.Name())
		cs.ptypes = append(cs.ptypes, p.Type())
	}
	return cs
}

// ifaceMethodKey is the contract key of an interface method of a layer interface type ("" otherwise).
func ifaceMethodKey(cc *ssa.CallCommon) string {
	np := namedPath(types.Unalias(cc.Value.Type()))
	if !strings.HasPrefix(np, modPath+"/") {
		return ""
	}
	return strings.TrimPrefix(np, modPath+"/") + "." + cc.Method.Name()
}

func sigOfMethod(cc *ssa.CallCommon) calleeSig {
	sig := cc.Method.Type().(*types.Signature)
	cs := calleeSig{key: ifaceMethodKey(cc), name: cc.Method.Name(), sig: sig}
	cs.pnames = append(cs.pnames, "recv")
	cs.ptypes = append(cs.ptypes, cc.Value.Type())
	for i := 0; i < sig.Params().Len(); i++ {
		cs.pnames = append(cs.pnames, sig.Params().At(i).Name())
		cs.ptypes = append(cs.ptypes, sig.Params().At(i).Type())
	}
	return cs
}

func (fr *Frame) logRetSig(ctx *callCtx, callee calleeSig, r Val) Val {
	e := fr.e
	if e.vc.inline {
		return r
	}
	rts := resultTypes(callee.sig)
	for i, t := range rts {
		v := r
		if len(rts) != 1 {
			if i >= len(r.Tup) {
				continue
			}
			v = r.Tup[i]
		}
		if v.S == "" || v.S == "addr" || len(v.Tup) > 0 {
			continue
		}
		srt := e.vc.sortOf(t)
		if srt == "GoTuple" {
			continue
		}
		hn := fmt.Sprintf("callret_%s_%d", mangle(callee.Name()), i)
		if prev, ok := e.heapSorts[hn]; ok && prev != srt {
			continue
		}
		e.setHeap(ctx.st, hn, srt, v.S)
		e.callArgTypes[hn] = t
		// running sum of numeric results over all calls (retsum(F, i) in contracts)
		switch kindOf(t) {
		case kInt, kMathInt, kDec:
			sn := fmt.Sprintf("callsum_%s_ret%d", mangle(callee.Name()), i)
			e.setHeap(ctx.st, sn, "Int", app("+", e.heap(ctx.st, sn, "Int"), v.S))
		}
	}
	return r
}

// logCall records that a layer function was called and with which arguments (ghost call log, readable in
// contracts as called(F) and arg(F, param)).
func (fr *Frame) logCall(ctx *callCtx, calleeFn *ssa.Function) {
	fr.logCallSig(ctx, sigOfFunc(calleeFn))
}

func (fr *Frame) logCallSig(ctx *callCtx, callee calleeSig) {
	e := fr.e
	name := callee.Name()
	e.setHeap(ctx.st, "called_"+mangle(name), "Bool", "true")
	for i, pname := range callee.pnames {
		if i >= len(ctx.args) || ctx.args[i].S == "" || ctx.args[i].S == "addr" || len(ctx.args[i].Tup) > 0 {
			continue
		}
		pt := callee.ptypes[i]
		srt := e.vc.sortOf(pt)
		if srt == "GoTuple" {
			continue
		}
		hn := "callarg_" + mangle(name) + "_" + mangle(pname)
		if prev, ok := e.heapSorts[hn]; ok && prev != srt {
			// two layer functions of the same name with differently typed parameters of the same name (a keeper method
			// and the method of another keeper it forwards to): the log keeps the first one's values
			continue
		}
		e.setHeap(ctx.st, hn, srt, ctx.args[i].S)
		e.callArgTypes[hn] = pt
		// running sum of numeric arguments over all calls (argsum(F, p) in contracts)
		switch kindOf(pt) {
		case kInt, kMathInt, kDec:
			sn := "callsum_" + mangle(name) + "_" + mangle(pname)
			e.setHeap(ctx.st, sn, "Int", app("+", e.heap(ctx.st, sn, "Int"), ctx.args[i].S))
		}
	}
}

func (fr *Frame) contractCall(ctx *callCtx, calleeFn *ssa.Function, c *Contract) Val {
	return fr.contractCallSig(ctx, sigOfFunc(calleeFn), c)
}

func (fr *Frame) contractCallSig(ctx *callCtx, callee calleeSig, c *Contract) Val {
	e := fr.e
	st := ctx.st
	fr.logCallSig(ctx, callee)
	names := map[string]Val{}
	for i, pname := range callee.pnames {
		if i < len(ctx.args) {
			names[pname] = ctx.args[i]
			if i < len(c.ParamNames) && c.ParamNames[i] != "" {
				names[c.ParamNames[i]] = ctx.args[i]
			}
		}
	}
	pre := st.clone()
	envPre := &evalEnv{e: e, st: pre, old: pre, lookup: func(n string) (Val, bool) { v, ok := names[n]; return v, ok }}
	short := lastName(callee.key)
	for _, r := range c.Requires {
		f := e.evalBool(r.expr, envPre)
		e.addObl(st, "call("+short+").requires", fr.lbl(r.label), f, ctx.pos)
	}
	for _, m := range e.expandMods(c.Modifies) {
		name := e.modName(m)
		if name == "G_*" {
			e.havocGhost(st)
			continue
		}
		if srt, ok := e.heapSorts[name]; ok {
			e.setHeap(st, name, srt, e.vc.fresh(name, srt))
		} else {
			e.pendingHavoc = append(e.pendingHavoc, name)
		}
	}
	res := e.freshVal(st, "r_"+short, ctx.rt)
	rn := map[string]Val{}
	for k, v := range names {
		rn[k] = v
	}
	rts := resultTypes(callee.sig)
	for i := range rts {
		var v Val
		if len(rts) == 1 {
			v = res
		} else {
			v = res.Tup[i]
		}
		if i < len(c.ResultNames) && c.ResultNames[i] != "" {
			rn[c.ResultNames[i]] = v
		}
	}
	envPost := &evalEnv{e: e, st: st, old: pre, lookup: func(n string) (Val, bool) { v, ok := rn[n]; return v, ok }}
	for _, en := range c.Ensures {
		if mentionsCallLog(en.expr) {
			continue // observations about the callee's own calls are not visible to its callers
		}
		f := e.evalBool(en.expr, envPost)
		if os.Getenv("GOVC_DEBUG") != "" {
			fmt.Fprintf(os.Stderr, "ENSURES %s [%s] tag=%d inline=%v: %.200s\n", callee.key, en.label, e.vc.curTag, e.vc.inline, f)
		}
		e.assumeIn(st, f)
	}
	e.usedContracts[callee.key] = true
	return res
}

// expandMods expands "module.*" entries to every registered ghost heap of that module, and store names to
// their value/domain heaps.
func (e *Engine) expandMods(ms []string) []string {
	var out []string
	for _, m := range ms {
		if strings.HasSuffix(m, ".*") {
			pre := "G_" + strings.TrimSuffix(m, ".*") + "_"
			var ks []string
			for k := range e.heapSorts {
				if strings.HasPrefix(k, pre) {
					ks = append(ks, k)
				}
			}
			sort.Strings(ks)
			out = append(out, ks...)
			continue
		}
		n := e.modName(m)
		if _, ok := e.heapSorts[n]; ok || n == "G_*" {
			out = append(out, n)
			continue
		}
		found := false
		for _, suf := range []string{"_v", "_d"} {
			if _, ok := e.heapSorts[n+suf]; ok {
				out = append(out, n+suf)
				found = true
			}
		}
		if !found {
			out = append(out, n)
		}
	}
	return out
}

// modName maps a modifies entry to a heap name.
func (e *Engine) modName(m string) string {
	if strings.HasPrefix(m, "H_") || strings.HasPrefix(m, "A_") || strings.HasPrefix(m, "G_") || strings.HasPrefix(m, "M") {
		return m
	}
	return "G_" + mangle(m)
}

// ---------- deferred calls ----------

func (fr *Frame) runDeferred(d deferRec, st *State) {
	cc := d.d.Call
	name := ""
	if c := cc.StaticCallee(); c != nil {
		name = c.String()
	} else if cc.IsInvoke() {
		name = "(" + typeKeyFull(cc.Value.Type()) + ")." + cc.Method.Name()
	}
	if isDropped(name) || strings.HasSuffix(name, ".Close") || strings.HasSuffix(name, ".Unlock") || strings.HasSuffix(name, ".RUnlock") {
		if strings.HasSuffix(name, ".Unlock") || strings.HasSuffix(name, ".RUnlock") {
			fr.e.initHeap("lock_held", "Bool")
			fr.e.addObl(st, "lock", fr.lbl("deferred_unlock_of_a_held_lock"), fr.e.heap(st, "lock_held", "Bool"), d.d.Pos())
			fr.e.setHeap(st, "lock_held", "Bool", "false")
		}
		return
	}
	fr.e.note("unmodelled", "deferred call "+name+" ignored")
}

// ---------- builtins ----------

func (fr *Frame) builtin(b *ssa.Builtin, ctx *callCtx) Val {
	e := fr.e
	st := ctx.st
	args := ctx.args
	switch b.Name() {
	case "len":
		a := args[0]
		switch kindOf(a.T) {
		case kSlice:
			return Val{S: app("slen", a.S), T: ctx.rt}
		case kStr:
			return Val{S: app("str_len", a.S), T: ctx.rt}
		case kArray:
			return Val{S: fmt.Sprint(types.Unalias(a.T).Underlying().(*types.Array).Len()), T: ctx.rt}
		case kMap:
			e.vc.declFun("map_len", []string{"Int"}, "Int")
			r := e.vc.fresh("maplen", "Int")
			e.vc.assume(app(">=", r, "0"))
			e.note("approx", "len(map) unconstrained non-negative")
			return Val{S: r, T: ctx.rt}
		case kPtr:
			if at, ok := types.Unalias(a.T).Underlying().(*types.Pointer).Elem().Underlying().(*types.Array); ok {
				return Val{S: fmt.Sprint(at.Len()), T: ctx.rt}
			}
		}
	case "cap":
		a := args[0]
		if kindOf(a.T) == kSlice {
			r := e.vc.fresh("cap", "Int")
			e.vc.assume(app(">=", r, app("slen", a.S)))
			return Val{S: r, T: ctx.rt}
		}
	case "append":
		return fr.appendOp(ctx)
	case "copy":
		return fr.copyOp(ctx)
	case "delete":
		m, k := args[0], args[1]
		mt := types.Unalias(m.T).Underlying().(*types.Map)
		_, _, dn, ds := e.vc.mapHeapName(mt.Key(), mt.Elem())
		hd := e.heap(st, dn, ds)
		e.setHeap(st, dn, ds, app("store", hd, m.S, app("store", app("select", hd, m.S), k.S, "false")))
		return Val{T: ctx.rt}
	case "min", "max":
		f := "imin"
		if b.Name() == "max" {
			f = "imax"
		}
		r := args[0].S
		for _, a := range args[1:] {
			r = app(f, r, a.S)
		}
		return Val{S: r, T: ctx.rt}
	case "panic":
		e.addObl(st, "panic", fr.lbl("explicit"), "false", ctx.pos)
		st.cond = "false"
		return Val{T: ctx.rt}
	case "print", "println", "recover":
		return Val{S: "iface_nil", T: ctx.rt}
	}
	e.unsupported("builtin " + b.Name() + " on " + args[0].T.String())
	return e.freshVal(st, "builtin", ctx.rt)
}

// append(s, xs...): always reallocates (aliasing of spare capacity is outside the subset, T5).
func (fr *Frame) appendOp(ctx *callCtx) Val {
	e := fr.e
	st := ctx.st
	s, xs := ctx.args[0], ctx.args[1]
	sl := types.Unalias(ctx.rt).Underlying().(*types.Slice)
	hn, hs := e.vc.arrHeapName(sl.Elem())
	es := e.vc.sortOf(sl.Elem())
	ref := e.alloc(st)
	h := e.heap(st, hn, hs)
	olds := app("select", h, app("sptr", s.S))
	var xsArr, xsOff, xsLen string
	if kindOf(xs.T) == kStr {
		e.vc.declFun("str_bytes", []string{"Str"}, "(Array Int Int)")
		xsArr, xsOff, xsLen = app("str_bytes", xs.S), "0", app("str_len", xs.S)
	} else {
		xsArr, xsOff, xsLen = app("select", h, app("sptr", xs.S)), app("soff", xs.S), app("slen", xs.S)
	}
	n := e.vc.define("alen", "Int", app("slen", s.S))
	// fast path: appending a one-element varargs slice -> single store
	newArr := e.vc.fresh("apparr", "(Array Int "+es+")")
	e.vc.assume(fmt.Sprintf("(forall ((j Int)) (! (= (select %s j) (ite (< j %s) (select %s (idx (soff %s) j)) (select %s (idx %s (- j %s))))) :pattern ((select %s j))))",
		newArr, n, olds, s.S, xsArr, xsOff, n, newArr))
	e.setHeap(st, hn, hs, app("store", h, ref, newArr))
	return Val{S: e.vc.define("app", "Slice", app("mk_slice", ref, "0", app("+", n, xsLen))), T: ctx.rt}
}

func (fr *Frame) copyOp(ctx *callCtx) Val {
	e := fr.e
	st := ctx.st
	dst, src := ctx.args[0], ctx.args[1]
	sl := types.Unalias(dst.T).Underlying().(*types.Slice)
	hn, hs := e.vc.arrHeapName(sl.Elem())
	es := e.vc.sortOf(sl.Elem())
	h := e.heap(st, hn, hs)
	var srcArr, srcOff, srcLen string
	if kindOf(src.T) == kStr {
		e.vc.declFun("str_bytes", []string{"Str"}, "(Array Int Int)")
		srcArr, srcOff, srcLen = app("str_bytes", src.S), "0", app("str_len", src.S)
	} else {
		srcArr, srcOff, srcLen = app("select", h, app("sptr", src.S)), app("soff", src.S), app("slen", src.S)
	}
	n := e.vc.define("ncopy", "Int", app("imin", app("slen", dst.S), srcLen))
	old := app("select", h, app("sptr", dst.S))
	newArr := e.vc.fresh("cparr", "(Array Int "+es+")")
	e.vc.assume(fmt.Sprintf("(forall ((j Int)) (! (= (select %s j) (ite (and (<= (soff %s) j) (< j (+ (soff %s) %s))) (select %s (idx %s (- j (soff %s)))) (select %s j))) :pattern ((select %s j))))",
		newArr, dst.S, dst.S, n, srcArr, srcOff, dst.S, old, newArr))
	e.setHeap(st, hn, hs, app("store", h, app("sptr", dst.S), newArr))
	if ctx.common != nil && len(ctx.common.Args) == 2 {
		fr.abiCopyLemma(ctx, newArr)
	}
	if kindOf(sl.Elem()) == kInt && kindOf(src.T) == kSlice {
		// abstraction lemma: a full copy has the same abstract sequence as its source
		e.declSeq()
		e.assumeIn(st, implies(and(eq(n, app("slen", dst.S)), eq(n, srcLen)),
			eq(app("seq_of", newArr, app("soff", dst.S), n), app("seq_of", srcArr, srcOff, n))))
	}
	return Val{S: n, T: ctx.rt}
}

// mentionsCallLog: the expression refers to the call log (arg/ret/called of calls made inside the function).
func mentionsCallLog(x Expr) bool {
	switch y := x.(type) {
	case *ECall:
		if y.Fn == "arg" || y.Fn == "ret" || y.Fn == "called" || y.Fn == "argsum" || y.Fn == "retsum" || y.Fn == "iterkey" || y.Fn == "iterk" || y.Fn == "iterstopped" {
			return true
		}
		for _, a := range y.Args {
			if mentionsCallLog(a) {
				return true
			}
		}
	case *EUn:
		return mentionsCallLog(y.X)
	case *EBin:
		return mentionsCallLog(y.X) || mentionsCallLog(y.Y)
	case *ECond:
		return mentionsCallLog(y.C) || mentionsCallLog(y.A) || mentionsCallLog(y.B)
	case *ESel:
		return mentionsCallLog(y.X)
	case *EIndex:
		return mentionsCallLog(y.X) || mentionsCallLog(y.I)
	case *EQuant:
		return mentionsCallLog(y.Body) || (y.Lo != nil && (mentionsCallLog(y.Lo) || mentionsCallLog(y.Hi)))
	}
	return false
}

// ---------- call log across loop cuts ----------

// logHeapsOf lists the call-log heaps (called_F, callarg_F_p, callret_F_i, callsum_F_*) that a call with this
// signature writes, with their sorts.
func (e *Engine) logHeapsOf(cs calleeSig) map[string]string {
	out := map[string]string{}
	name := cs.Name()
	out["called_"+mangle(name)] = "Bool"
	for i, pn := range cs.pnames {
		if i >= len(cs.ptypes) {
			break
		}
		srt := e.vc.sortOf(cs.ptypes[i])
		if srt == "GoTuple" {
			continue
		}
		out["callarg_"+mangle(name)+"_"+mangle(pn)] = srt
		switch kindOf(cs.ptypes[i]) {
		case kInt, kMathInt, kDec:
			out["callsum_"+mangle(name)+"_"+mangle(pn)] = "Int"
		}
	}
	for i, t := range resultTypes(cs.sig) {
		srt := e.vc.sortOf(t)
		if srt == "GoTuple" {
			continue
		}
		out[fmt.Sprintf("callret_%s_%d", mangle(name), i)] = srt
		switch kindOf(t) {
		case kInt, kMathInt, kDec:
			out[fmt.Sprintf("callsum_%s_ret%d", mangle(name), i)] = "Int"
		}
	}
	return out
}

// loopLogHeaps: the call-log heaps that executing the given blocks of fn may write: one group per layer function
// called there, through inlined callees and closures as well. The call log is ghost state like any other: at a loop
// cut (and at the arbitrary point of a callback iteration) it is unknown.
func (fr *Frame) loopLogHeaps(fn *ssa.Function, blocks map[int]bool, depth int, out map[string]string, seen map[*ssa.Function]bool) {
	e := fr.e
	if depth > 6 || fn == nil {
		return
	}
	for _, b := range fn.Blocks {
		if blocks != nil && !blocks[b.Index] {
			continue
		}
		for _, in := range b.Instrs {
			if mc, ok := in.(*ssa.MakeClosure); ok {
				if cf, ok := mc.Fn.(*ssa.Function); ok && !seen[cf] {
					seen[cf] = true
					fr.loopLogHeaps(cf, nil, depth+1, out, seen)
				}
				continue
			}
			ci, ok := in.(ssa.CallInstruction)
			if !ok {
				continue
			}
			cc := ci.Common()
			if cc.IsInvoke() {
				np := namedPath(types.Unalias(cc.Value.Type()))
				if strings.HasPrefix(np, modPath+"/") {
					for k, v := range e.logHeapsOf(sigOfMethod(cc)) {
						out[k] = v
					}
					if target := e.bindInvoke(cc); target != nil {
						for k, v := range e.logHeapsOf(sigOfFunc(target)) {
							out[k] = v
						}
						if c := e.prog.Contracts[funcKey(target)]; (c == nil || c.Uses["inline_at_calls"]) && !seen[target] {
							seen[target] = true
							fr.loopLogHeaps(target, nil, depth+1, out, seen)
						}
					}
				}
				continue
			}
			callee := cc.StaticCallee()
			if callee == nil {
				continue
			}
			if !strings.HasPrefix(fnPkgPath(callee), modPath) {
				continue
			}
			for k, v := range e.logHeapsOf(sigOfFunc(callee)) {
				out[k] = v
			}
			if c := e.prog.Contracts[funcKey(callee)]; (c == nil || c.Uses["inline_at_calls"]) && len(callee.Blocks) > 0 && !seen[callee] {
				seen[callee] = true
				fr.loopLogHeaps(callee, nil, depth+1, out, seen)
			}
		}
	}
}

// havocLogHeaps gives every listed call-log heap an unknown value in st.
func (e *Engine) havocLogHeaps(st *State, hs map[string]string) {
	var names []string
	for n := range hs {
		names = append(names, n)
	}
	sort.Strings(names)
	for _, n := range names {
		srt := hs[n]
		if prev, ok := e.heapSorts[n]; ok && prev != srt {
			continue // sort clash between two functions of one name: the log keeps the first (see logCallSig)
		}
		e.initHeap(n, srt)
		st.heaps[n] = e.vc.fresh(n, srt)
	}
}
