package main

// Trusted specifications for cosmos-sdk address helpers, bank InputOutputCoins and account keeper (T3).

import (
	"go/types"
	"strings"

	"golang.org/x/tools/go/ssa"
)

func (e *Engine) declAddrStr() {
	e.vc.declFun("acc_str", []string{"BV"}, "Str")
	e.vc.declFun("addr_str", []string{"Str"}, "Addr")
	e.vc.declFun("bech32ok", []string{"Str"}, "Bool")
	e.vc.declFun("accbv", []string{"Str"}, "BV")
	e.vc.declSort("(assert (forall ((s Str)) (! (= (addr_acc (accbv s)) (addr_str s)) :pattern ((accbv s)))))")
	e.vc.declSort("(assert (forall ((b BV)) (! (and (= (addr_str (acc_str b)) (addr_acc b)) (bech32ok (acc_str b)) (= (accbv (acc_str b)) b)) :pattern ((acc_str b)))))")
}

// freshAddrSlice returns a fresh byte slice standing for an address with the given abstract identity.
func (e *Engine) freshAddrSlice(c *callCtx, hint string, t types.Type, ident string) Val {
	v := e.freshVal(c.st, hint, t)
	e.assumeIn(c.st, eq(app("addr_acc", e.bvOf(c.st, v)), ident))
	e.assumeIn(c.st, not(eq(app("sptr", v.S), "0")))
	return v
}

func init() {
	const auth = "github.com/cosmos/cosmos-sdk/x/auth/types"
	const sdkT = "github.com/cosmos/cosmos-sdk/types"
	modAddr := func(c *callCtx) Val {
		return c.e().freshAddrSlice(c, "modaddr", c.rt, app("addr_mod", c.args[0].S))
	}
	// crypto.Keccak256(data...): a function of the byte content for a single argument (keccak1); 32 bytes
	libSpecs["github.com/ethereum/go-ethereum/crypto.Keccak256"] = func(c *callCtx) Val {
		e := c.e()
		e.vc.declFun("keccak1", []string{"BV"}, "BV")
		r := e.freshVal(c.st, "keccak", c.rt)
		e.assumeIn(c.st, and(eq(app("slen", r.S), "32"), not(eq(app("sptr", r.S), "0"))))
		va := c.args[0]
		sl := types.Unalias(va.T).Underlying().(*types.Slice)
		hn, hs := e.vc.arrHeapName(sl.Elem())
		el := Val{S: e.vc.define("kin", "Slice", app("select", app("select", e.heap(c.st, hn, hs), app("sptr", va.S)), app("idx", app("soff", va.S), "0"))), T: sl.Elem()}
		e.assumeIn(c.st, implies(eq(app("slen", va.S), "1"), eq(e.bvOf(c.st, r), app("keccak1", e.bvOf(c.st, el)))))
		return r
	}
	// sha256.Sum256(b): an uninterpreted function of the content of b (sha256(b) in contracts); the [32]byte result's
	// content is that value
	libSpecs["crypto/sha256.Sum256"] = func(c *callCtx) Val {
		e := c.e()
		e.declAddr()
		e.vc.declFun("sha256f", []string{"BV"}, "BV")
		arr := e.vc.fresh("sha", e.vc.sortOf(c.rt))
		e.assumeIn(c.st, eq(app("bv_of", arr, "0", "32"), app("sha256f", e.bvOf(c.st, c.args[0]))))
		return c.ret(arr)
	}
	libSpecs[auth+".NewModuleAddressOrBech32Address"] = modAddr
	libSpecs[auth+".NewModuleAddress"] = modAddr
	libSpecs["("+sdkT+".AccAddress).String"] = func(c *callCtx) Val {
		e := c.e()
		e.declAddrStr()
		return c.def("accstr", app("acc_str", e.bvOf(c.st, c.args[0])))
	}
	libSpecs["("+sdkT+".ValAddress).String"] = func(c *callCtx) Val {
		e := c.e()
		e.vc.declFun("val_str", []string{"BV"}, "Str")
		return c.def("valstr", app("val_str", e.bvOf(c.st, c.args[0])))
	}
	libSpecs["("+sdkT+".AccAddress).Bytes"] = func(c *callCtx) Val { return Val{S: c.args[0].S, T: c.rt} }
	libSpecs["("+sdkT+".ValAddress).Bytes"] = func(c *callCtx) Val { return Val{S: c.args[0].S, T: c.rt} }
	libSpecs["("+sdkT+".AccAddress).Equals"] = func(c *callCtx) Val {
		e := c.e()
		// Equals(aa2 sdk.Address): both empty, or equal bytes -- i.e. equal contents -- when aa2 holds an AccAddress
		if mi, ok := c.common.Args[1].(*ssa.MakeInterface); ok && strings.HasSuffix(namedPath(mi.X.Type()), "cosmos-sdk/types.AccAddress") {
			other := c.fr.get(mi.X)
			return c.def("acceq", eq(e.bvOf(c.st, c.args[0]), e.bvOf(c.st, other)))
		}
		return c.fr.pureHavoc(c).withNote(e, "AccAddress.Equals unconstrained")
	}
	libSpecs[sdkT+".AccAddressFromBech32"] = func(c *callCtx) Val {
		e := c.e()
		e.declAddrStr()
		tt := c.rt.(*types.Tuple)
		ok := e.vc.define("b32ok", "Bool", app("bech32ok", c.args[0].S))
		v := e.freshVal(c.st, "acc", tt.At(0).Type())
		e.assumeIn(c.st, implies(ok, eq(e.bvOf(c.st, v), app("accbv", c.args[0].S))))
		e.assumeIn(c.st, implies(ok, eq(app("addr_acc", e.bvOf(c.st, v)), app("addr_str", c.args[0].S))))
		e.assumeIn(c.st, implies(ok, eq(app("acc_str", e.bvOf(c.st, v)), c.args[0].S)))
		er := c.freshErr("b32err")
		return Val{T: c.rt, Tup: []Val{v, {S: ite(ok, "iface_nil", er), T: tt.At(1).Type()}}}
	}
	libSpecs[sdkT+".MustAccAddressFromBech32"] = func(c *callCtx) Val {
		e := c.e()
		e.declAddrStr()
		c.obl("panic.lib", "MustAccAddressFromBech32_invalid", app("bech32ok", c.args[0].S))
		v := e.freshVal(c.st, "acc", c.rt)
		e.assumeIn(c.st, eq(e.bvOf(c.st, v), app("accbv", c.args[0].S)))
		e.assumeIn(c.st, eq(app("addr_acc", e.bvOf(c.st, v)), app("addr_str", c.args[0].S)))
		e.assumeIn(c.st, eq(app("acc_str", e.bvOf(c.st, v)), c.args[0].S))
		return v
	}
	libSpecs["github.com/cosmos/cosmos-sdk/x/bank/types.NewInput"] = func(c *callCtx) Val {
		e := c.e()
		e.declAddrStr()
		ss := e.vc.structInfo(c.rt)
		return c.def("input", app("mk_"+ss.name, app("acc_str", e.bvOf(c.st, c.args[0])), c.args[1].S))
	}

	// bank.InputOutputCoins(ctx, input, outputs): exact for up to 3 outputs
	invokeByMethod["InputOutputCoins"] = func(c *callCtx) (Val, bool) {
		if !isBankIface(c) {
			return Val{}, false
		}
		e := c.e()
		e.declAddrStr()
		st := c.st
		in, outs := c.args[2], c.args[3]
		iss := e.vc.structInfo(in.T)
		inAddr := app("addr_str", app(iss.fields[0], in.S))
		inAmt := e.coinsTotal(st, Val{S: app(iss.fields[1], in.S), T: iss.ftypes[1]})
		osl := types.Unalias(outs.T).Underlying().(*types.Slice)
		oss := e.vc.structInfo(osl.Elem())
		hn, hs := e.vc.arrHeapName(osl.Elem())
		arr := app("select", e.heap(st, hn, hs), app("sptr", outs.S))
		n := app("slen", outs.S)
		bal := e.bankBal(st)
		cur := app("store", bal, inAddr, app("-", app("select", bal, inAddr), inAmt))
		sum := "0"
		valid := app(">", inAmt, "0") // types.ValidateInputOutputs: input and every output hold positive coins
		for i := 0; i < 3; i++ {
			el := app("select", arr, app("idx", app("soff", outs.S), intLit64(int64(i))))
			a := app("addr_str", app(oss.fields[0], el))
			m := e.coinsTotal(st, Val{S: app(oss.fields[1], el), T: oss.ftypes[1]})
			present := app("<", intLit64(int64(i)), n)
			curD := e.vc.define("iobal", "(Array Addr Int)", cur)
			cur = ite(present, app("store", curD, a, app("+", app("select", curD, a), m)), curD)
			sum = app("+", sum, ite(present, m, "0"))
			valid = and(valid, implies(present, app(">", m, "0")))
		}
		exact := app("<=", n, "3")
		ok := e.vc.define("io_ok", "Bool", and(app(">=", app("select", bal, inAddr), inAmt), eq(inAmt, sum), valid))
		er := c.freshErr("ioerr")
		hv := e.vc.fresh("G_bank_bal", "(Array Addr Int)")
		e.setBankBal(st, ite(exact, ite(ok, cur, bal), hv))
		okv := e.vc.fresh("io_okv", "Bool")
		e.vc.assume(implies(exact, eq(okv, ok)))
		return c.ret(ite(okv, "iface_nil", er)), true
	}

	// account keeper
	invokeByMethod["GetModuleAddress"] = func(c *callCtx) (Val, bool) {
		if !strings.HasSuffix(namedPath(c.common.Value.Type()), ".AccountKeeper") {
			return Val{}, false
		}
		return c.e().freshAddrSlice(c, "modaddr", c.rt, app("addr_mod", c.args[1].S)), true
	}
	invokeByMethod["GetModuleAccount"] = func(c *callCtx) (Val, bool) {
		if !strings.HasSuffix(namedPath(c.common.Value.Type()), ".AccountKeeper") {
			return Val{}, false
		}
		e := c.e()
		e.vc.declFun("macc_name", []string{"Iface"}, "Str")
		v := e.freshVal(c.st, "macc", c.rt)
		e.vc.assume(eq(app("macc_name", v.S), c.args[2].S))
		e.vc.assume(not(eq(v.S, "iface_nil")))
		return v, true
	}
	invokeByMethod["GetAddress"] = func(c *callCtx) (Val, bool) {
		np := namedPath(c.common.Value.Type())
		if !strings.HasSuffix(np, ".ModuleAccountI") && !strings.HasSuffix(np, ".AccountI") {
			return Val{}, false
		}
		e := c.e()
		e.vc.declFun("macc_name", []string{"Iface"}, "Str")
		if strings.HasSuffix(np, ".ModuleAccountI") {
			return e.freshAddrSlice(c, "maddr", c.rt, app("addr_mod", app("macc_name", c.args[0].S))), true
		}
		return c.fr.pureHavoc(c), true
	}
}

func (v Val) withNote(e *Engine, n string) Val {
	e.note("approx", n)
	return v
}

// ---------- staking keeper (ghost: total bonded tokens) and sdk.Tx ----------

func init() {
	invokeByMethod["TotalBondedTokens"] = func(c *callCtx) (Val, bool) {
		if !strings.HasSuffix(namedPath(c.common.Value.Type()), ".StakingKeeper") {
			return Val{}, false
		}
		e := c.e()
		b := e.heap(c.st, "G_staking_bonded", "Int")
		er := e.vc.fresh("tbterr", "Iface")
		return c.tuple(b, er), true
	}
	invokeByMethod["GetMsgs"] = func(c *callCtx) (Val, bool) {
		e := c.e()
		e.vc.declFun("tx_msgs", []string{"Iface"}, "Slice")
		r := e.vc.define("msgs", "Slice", app("tx_msgs", c.args[0].S))
		e.assumeIn(c.st, and(e.typeInv(r, c.rt), e.allocInv(c.st, r, c.rt)))
		return Val{S: r, T: c.rt}, true
	}
}

// methodMods: heaps modified by interface methods handled in invokeByMethod (empty = read-only).
var methodMods = map[string][]string{
	"TotalBondedTokens": {}, "GetMsgs": {}, "GetModuleAddress": {}, "GetModuleAccount": {}, "GetAddress": {}, "Error": {},
}
