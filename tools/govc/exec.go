package main

import (
	"encoding/json"
	"path/filepath"
	"os"
	"fmt"
	"go/ast"
	"go/constant"
	"go/token"
	"go/types"
	"math/big"
	"sort"
	"strings"

	"golang.org/x/tools/go/ssa"
)

// ---------- values ----------

type Val struct {
	S    string // SMT term (scalar values); for pointers: the object reference
	T    types.Type
	Tup  []Val
	Clo  *closureVal
	Addr *addr
	Iter *iterVal
	G    *ghostRef
	GSt  *State
	KeySort string // store-key value built in a contract (pair/triple): its SMT sort
	Log  bool // derived from the call log: memory it refers to is read in the post-state
}

type closureVal struct {
	fn       *ssa.Function
	bindings []Val
	recv     *Val // bound method receiver
	// a function value that depends on the path taken: one closure per condition (merged at a join)
	alts []cloAlt
	// a function value the engine cannot follow (loop-carried function variable): calls through it are unknown calls
	unknown bool
}

type cloAlt struct {
	cond string
	clo  *closureVal
}

func sameClosure(a, b *closureVal) bool {
	if a == b {
		return true
	}
	if a == nil || b == nil || a.unknown || b.unknown || len(a.alts) > 0 || len(b.alts) > 0 {
		return false
	}
	if a.fn != b.fn || len(a.bindings) != len(b.bindings) || (a.recv == nil) != (b.recv == nil) {
		return false
	}
	if a.recv != nil && a.recv.S != b.recv.S {
		return false
	}
	for i := range a.bindings {
		if a.bindings[i].S != b.bindings[i].S {
			return false
		}
	}
	return true
}

func flattenAlts(c string, clo *closureVal) []cloAlt {
	if clo == nil {
		return nil
	}
	if len(clo.alts) == 0 {
		return []cloAlt{{c, clo}}
	}
	var out []cloAlt
	for _, a := range clo.alts {
		out = append(out, cloAlt{and(c, a.cond), a.clo})
	}
	return out
}

type iterVal struct {
	m    Val    // the map
	seen string // heap key of the seen-set
	id   int
}

const (
	aObj  = iota // H_T[ref] then path
	aElem        // A_T[ptr][idx] then path
	aGlob        // global variable
)

type pathStep struct {
	field int    // struct field index, or -1
	idx   string // array index term when field == -1
	ct    types.Type
}

type addr struct {
	kind  int
	rootT types.Type // type of the root cell (pointee / element type)
	ref   string
	idx   string
	path  []pathStep
	T     types.Type // type of the addressed location
	glob  *ssa.Global
}

// ---------- state ----------

type State struct {
	cond  string
	heaps map[string]string
	top   string
}

func (s *State) clone() *State {
	n := &State{cond: s.cond, heaps: make(map[string]string, len(s.heaps)), top: s.top}
	for k, v := range s.heaps {
		n.heaps[k] = v
	}
	return n
}

type Obligation struct {
	Name   string `json:"name"`
	Func   string `json:"func"`
	Kind   string `json:"kind"`
	Pos    string `json:"pos,omitempty"`
	Status string `json:"status"`
	Solver string `json:"solver,omitempty"`
	Ms     int64  `json:"ms"`
	Model  string `json:"model,omitempty"`
	prefix int
	goal   string
	extra  []string
	vc     *VC
	inputs []string // names of input constants for model extraction
	tags   map[int]bool
	priority bool // proved on the pinned tree: worth the long stages
	inVals, outVals []Val // symbolic parameters / merged results of the function (for replay)
	prog            *Prog
}

// ---------- engine ----------

type Engine struct {
	prog      *Prog
	vc        *VC
	root      *ssa.Function
	rootKey   string
	heapSorts map[string]string // heap name -> sort
	heapInit  map[string]string
	maxInline int
	oos       []string // out-of-subset reasons
	nameCount map[string]int
	inputs    []string
	ghost     map[string]string // ghost accumulators (name -> current term) live in state heaps under "ghost:<name>"
	iterN     int
	callDepth int
	calledFns map[string]bool
	cover     []string
	ghostHavocked bool
	pendingHavoc  []string
	usedContracts map[string]bool
	contractErrs  []string
	qn            int
	sortN         int
	sortDeps      []string
	pendingSorts  []*sortSite
	ghosts        map[string]*ghostRef
	ioSites       []ioSite
	constArrs     map[string]string
	outputs   []Val
	congDone  map[string]bool
	sumByExpr map[*EQuant][]sumInst
	sumByExprP, sumByExprG map[*EQuant][]sumInst // instances under one enclosing Int quantifier / ground instances
	sumFns        map[string]string
	sortPerms     []sortPerm
	callArgTypes  map[string]types.Type
	quiet         int // >0: obligations are discarded (auxiliary re-executions)
	freshResultsAlias bool // true while creating the symbolic inputs of the function under verification
	anc           map[int]map[int]bool // top-level function: block -> blocks that can reach it (forward edges)
	allocRefs     map[string]bool
	allocBase     map[string]string
}

func newEngine(p *Prog, fn *ssa.Function) *Engine {
	return &Engine{prog: p, vc: newVC(p), root: fn, rootKey: funcKey(fn), heapSorts: map[string]string{}, heapInit: map[string]string{}, maxInline: 4, nameCount: map[string]int{}, calledFns: map[string]bool{}, usedContracts: map[string]bool{}, ghosts: map[string]*ghostRef{}, constArrs: map[string]string{}, sumFns: map[string]string{}, allocRefs: map[string]bool{}, callArgTypes: map[string]types.Type{}, allocBase: map[string]string{}}
}

func (e *Engine) note(kind, s string) {
	e.vc.notes[kind+": "+s] = true
}

func (e *Engine) unsupported(reason string) {
	e.oos = append(e.oos, reason)
}

// heap access: the current term of a heap in a state (initial constant if untouched)
func (e *Engine) heap(st *State, name, sort string) string {
	if t, ok := st.heaps[name]; ok {
		return t
	}
	return e.initHeap(name, sort)
}

func (e *Engine) initHeap(name, sort string) string {
	if t, ok := e.heapInit[name]; ok {
		return t
	}
	c := name + "!0"
	// declared up-front (at line 0) so that every prefix sees it
	e.vc.insertGlobal(0, fmt.Sprintf("(declare-const %s %s)", c, sort))
	for _, o := range e.vc.obls {
		o.prefix++
	}
	e.heapInit[name] = c
	e.heapSorts[name] = sort
	if strings.HasPrefix(name, "callarg_") {
		// never read before the call that sets it
	}
	if strings.HasPrefix(name, "callsum_") {
		e.vc.insertGlobal(1, "(assert (= "+c+" 0))")
		for _, o := range e.vc.obls {
			o.prefix++
		}
	}
	if strings.HasPrefix(name, "called_") || strings.HasPrefix(name, "iterstopped_") {
		// ghost flags start false
		e.vc.insertGlobal(1, "(assert (not "+c+"))")
		for _, o := range e.vc.obls {
			o.prefix++
		}
	}
	return c
}

func (e *Engine) setHeap(st *State, name, sort, term string) {
	e.heapSorts[name] = sort
	e.initHeap(name, sort)
	st.heaps[name] = e.vc.define(name, sort, term)
}

func (e *Engine) oblName(kind, label string) string {
	base := e.rootKey + "#" + kind
	if label != "" {
		base += "." + label
	}
	e.nameCount[base]++
	if n := e.nameCount[base]; n > 1 {
		base = fmt.Sprintf("%s~%d", base, n)
	}
	return base
}

func (e *Engine) addObl(st *State, kind, label, prop string, pos token.Pos) *Obligation {
	goal := implies(st.cond, prop)
	if e.quiet > 0 {
		return &Obligation{Name: "quiet", Status: "discharged"}
	}
	if e.vc.inline {
		return &Obligation{Name: "inline", Status: "discharged"}
	}
	o := &Obligation{Name: e.oblName(kind, label), Func: e.rootKey, Kind: kind, Pos: e.prog.posStr(pos), prefix: len(e.vc.lines), goal: goal, vc: e.vc}
	if e.vc.curTag >= 0 && e.anc != nil {
		o.tags = e.anc[e.vc.curTag]
	}
	if goal == "true" {
		o.Status = "discharged"
		o.Solver = "trivial"
	}
	e.vc.obls = append(e.vc.obls, o)
	return o
}

// assume a fact that holds whenever the state is reached
func (e *Engine) assumeIn(st *State, f string) {
	e.vc.assume(implies(st.cond, f))
}

// package-level variables initialised by a call and never reassigned in layer (checked by grep; trusted)
var trustedGlobals = map[string]string{
	"github.com/tellor-io/layer/types.PowerReduction":              "1000000",
	"github.com/tellor-io/layer/types.OneTrb":                      "1000000",
	"github.com/tellor-io/layer/types.OnePercent":                  "10000",
	"github.com/cosmos/cosmos-sdk/types.DefaultPowerReduction":     "1000000",
}

// ---------- zero values / type invariants ----------

const timeZeroNs = "(- 62135596800000000000)"

func (e *Engine) zero(t types.Type) string {
	t = types.Unalias(t)
	switch kindOf(t) {
	case kInt, kMathInt, kDec, kPtr, kMap, kChan:
		return "0"
	case kTime:
		return timeZeroNs
	case kBool:
		return "false"
	case kStr:
		return e.vc.strLit("")
	case kReal:
		return "0.0"
	case kSlice:
		return "(mk_slice 0 0 0)"
	case kIface:
		return "iface_nil"
	case kFunc:
		e.vc.declSort("(declare-const fn_nil Fn)")
		return "fn_nil"
	case kArray:
		a := t.Underlying().(*types.Array)
		return e.constArray("Int", e.vc.sortOf(a.Elem()), e.zero(a.Elem()))
	case kStruct:
		ss := e.vc.structInfo(t)
		if len(ss.fields) == 0 {
			return "mk_" + ss.name
		}
		var fs []string
		for _, ft := range ss.ftypes {
			fs = append(fs, e.zero(ft))
		}
		return app("mk_"+ss.name, fs...)
	}
	s := e.vc.sortOf(t)
	z := "zero_" + mangle(s)
	e.vc.declSort(fmt.Sprintf("(declare-const %s %s)", z, s))
	return z
}

// constArray returns an array term mapping every index to v. (as const ...) is only used for literal
// values (cvc5 requires a value there); otherwise a constant with a defining axiom is introduced.
func (e *Engine) constArray(idxSort, elemSort, v string) string {
	lit := v == "true" || v == "false" || v == "0" || v == "0.0"
	if lit {
		return fmt.Sprintf("((as const (Array %s %s)) %s)", idxSort, elemSort, v)
	}
	key := "carr:" + idxSort + ":" + elemSort + ":" + v
	if c, ok := e.constArrs[key]; ok {
		return c
	}
	e.vc.n++
	c := fmt.Sprintf("zarr!%d", e.vc.n)
	e.vc.declSort(fmt.Sprintf("(declare-const %s (Array %s %s))", c, idxSort, elemSort))
	e.vc.declSort(fmt.Sprintf("(assert (forall ((j %s)) (! (= (select %s j) %s) :pattern ((select %s j)))))", idxSort, c, v, c))
	e.constArrs[key] = c
	return c
}

// typeInv: the invariant every well-typed value of t satisfies (shallow).
func (e *Engine) typeInv(term string, t types.Type) string {
	t = types.Unalias(t)
	switch kindOf(t) {
	case kInt:
		return inRange(term, t)
	case kTime:
		// times are the zero time or representable as int64 nanoseconds since the Unix epoch (years 1678-2262)
		return or(eq(term, timeZeroNs), and(app("<=", "(- 9223372036854775808)", term), app("<=", term, "9223372036854775807")))
	case kStr:
		return and(app("<=", "0", app("str_len", term)), app("<=", app("str_len", term), "9223372036854775807"))
	case kSlice:
		return and(app("<=", "0", app("slen", term)), app("<=", app("slen", term), "9223372036854775807"), app("<=", "0", app("soff", term)), app("<=", "0", app("sptr", term)))
	case kPtr, kMap:
		return app("<=", "0", term)
	case kStruct:
		ss := e.vc.structInfo(t)
		var cs []string
		for i, ft := range ss.ftypes {
			switch kindOf(ft) {
			case kInt, kStr, kSlice, kPtr, kMap, kStruct:
				cs = append(cs, e.typeInv(app(ss.fields[i], term), ft))
			}
		}
		return and(cs...)
	}
	return "true"
}

// allocInv: references held by a loaded value denote objects allocated before the current point.
func (e *Engine) allocInv(st *State, term string, t types.Type) string {
	t = types.Unalias(t)
	switch kindOf(t) {
	case kPtr, kMap:
		return app("<", term, st.top)
	case kSlice:
		return app("<", app("sptr", term), st.top)
	case kStruct:
		ss := e.vc.structInfo(t)
		var cs []string
		for i, ft := range ss.ftypes {
			switch kindOf(ft) {
			case kPtr, kMap:
				cs = append(cs, app("<", app(ss.fields[i], term), st.top))
			case kSlice:
				cs = append(cs, app("<", app("sptr", app(ss.fields[i], term)), st.top))
			}
		}
		return and(cs...)
	}
	return "true"
}

// ---------- frames ----------

type retRec struct {
	cond string
	vals []Val
	st   *State
	pos  token.Pos
}

type Frame struct {
	loopAssign map[int]int // source loop ordinal -> contract loop ordinal
	renames map[string]string // old local name (as written in the contract) -> current name
	e        *Engine
	fn       *ssa.Function
	regs     map[ssa.Value]Val
	bindings []Val
	depth    int
	entry    *State
	out      map[int]*State
	edge     map[[2]int]string
	rets     []retRec
	defers   []*ssa.Defer
	deferSt  []deferRec
	contract *Contract
	loops    map[int]*loopInfo // by header block index
	loopList []*loopInfo
	envAt    map[int]map[string]ssa.Value // var env at block exit
	top      bool
	label    string // prefix for obligation labels in inlined frames
	params   []Val
	iters    map[ssa.Value]*iterVal
	loopHavoc map[int]map[ssa.Value]Val
	loopMapBad bool
	iterOrd    map[ssa.Instruction]int
	nextOverride *[3]Val // re-running a map-range body: the element the iterator delivers
	quiet        bool    // obligations generated in this frame are discarded (auxiliary re-execution)
	ranges       map[ssa.Value]*rangeInfo     // collections range builders (walk.go)
	iterKey      map[int]func(string) string // callback iteration N: last key component of element j (iterkey(N, j))
	iterStore    map[ssa.Value]*ghostRef     // Map.Iterate call -> store (indexiter.go)
	fvBind       map[*ssa.Function][]ssa.Value // closures created in this function: their captured variables
	modLoop      map[int]bool                  // blocks of the loop whose modifications are being collected
}

type deferRec struct {
	d    *ssa.Defer
	args []Val
	fn   Val
	cond string
}

type loopInfo struct {
	cord    int  // the contract's ordinal for this loop when it differs from the source ordinal (0: same)
	cordSet bool
	header  *ssa.BasicBlock
	blocks  map[int]bool
	latches []*ssa.BasicBlock
	ordinal int
	stmt    ast.Stmt
	finger  string
}

func (e *Engine) newFrame(fn *ssa.Function, depth int) *Frame {
	fr := &Frame{e: e, fn: fn, regs: map[ssa.Value]Val{}, depth: depth, out: map[int]*State{}, edge: map[[2]int]string{}, loops: map[int]*loopInfo{}, envAt: map[int]map[string]ssa.Value{}, iters: map[ssa.Value]*iterVal{}, loopHavoc: map[int]map[ssa.Value]Val{}}
	fr.findLoops()
	fr.buildEnv()
	if depth == 0 {
		fr.computeRenames()
	}
	return fr
}

// headerNames: the source-level names in scope at a loop header, with their types.
func (fr *Frame) headerNames(li *loopInfo) map[string]string {
	out := map[string]string{}
	if idom := li.header.Idom(); idom != nil {
		for n, v := range fr.envAt[idom.Index] {
			if strings.HasPrefix(n, "&") {
				n = n[1:]
			}
			out[n] = types.TypeString(v.Type(), func(p *types.Package) string { return p.Name() })
		}
	}
	for _, in := range li.header.Instrs {
		if phi, ok := in.(*ssa.Phi); ok && phi.Comment != "" && phi.Comment != "rangeindex" {
			out[phi.Comment] = types.TypeString(phi.Type(), func(p *types.Package) string { return p.Name() })
		}
	}
	return out
}

// computeRenames: a contract names local variables in its loop invariants. When a local was renamed since the
// baseline was written (baseline/names.json records the names in scope at every loop header), the old name is
// followed to the new one: a name that disappeared is matched with the only new name of the same type at that
// header. A wrong guess cannot make anything pass that should not -- the invariant is then simply not provable.
func (fr *Frame) computeRenames() {
	fr.renames = map[string]string{}
	base := loadNames()[funcKey(fr.fn)]
	if base == nil {
		return
	}
	sites := map[string]map[string]string{}
	for _, li := range fr.loopList {
		sites[fmt.Sprint(li.ordinal)] = fr.headerNames(li)
	}
	for k, v := range fr.iterSiteNames() {
		sites[k] = v
	}
	for site, cur := range sites {
		old := base[site]
		if old == nil {
			continue
		}
		for on, ot := range old {
			if _, still := cur[on]; still {
				continue
			}
			cand := ""
			n := 0
			for cn, ct := range cur {
				// an address-taken local appears under its own type or as a pointer to it, depending on which of its
				// SSA values the environment holds at that point: compare the types without the leading "*"
				if _, wasThere := old[cn]; !wasThere && strings.TrimPrefix(ct, "*") == strings.TrimPrefix(ot, "*") {
					cand = cn
					n++
				}
			}
			if n == 1 {
				fr.renames[on] = cand
			}
			if os.Getenv("GOVC_DEBUG_RENAMES") != "" {
				fmt.Fprintf(os.Stderr, "rename %s site=%s %s(%s) -> n=%d %s cur=%v\n", fr.fn.Name(), site, on, ot, n, cand, cur)
			}
		}
	}
}

// iterSiteNames: the names in scope at every callback-iteration call (Walk, IterateX...), keyed "iter<N>".
func (fr *Frame) iterSiteNames() map[string]map[string]string {
	out := map[string]map[string]string{}
	for _, b := range fr.fn.Blocks {
		for _, in := range b.Instrs {
			ci, ok := in.(ssa.CallInstruction)
			if !ok || !isIterationCall(ci.Common()) {
				continue
			}
			m := map[string]string{}
			for n, v := range fr.envAt[b.Index] {
				if strings.HasPrefix(n, "&") {
					n = n[1:]
				}
				m[n] = types.TypeString(v.Type(), func(p *types.Package) string { return p.Name() })
			}
			out[fmt.Sprintf("iter%d", fr.iterOrdinal(ci))] = m
		}
	}
	return out
}

var namesCache map[string]map[string]map[string]string

func loadNames() map[string]map[string]map[string]string {
	if namesCache != nil {
		return namesCache
	}
	namesCache = map[string]map[string]map[string]string{}
	if b, err := os.ReadFile(filepath.Join(envOr("GOVC_FROZEN", verifDir), "baseline", "names.json")); err == nil {
		json.Unmarshal(b, &namesCache)
	}
	return namesCache
}

func (fr *Frame) findLoops() {
	fn := fr.fn
	for _, b := range fn.Blocks {
		for _, s := range b.Succs {
			if s.Dominates(b) {
				li := fr.loops[s.Index]
				if li == nil {
					li = &loopInfo{header: s, blocks: map[int]bool{s.Index: true}}
					fr.loops[s.Index] = li
				}
				li.latches = append(li.latches, b)
				// natural loop: all nodes that reach b without going through s
				stack := []*ssa.BasicBlock{b}
				for len(stack) > 0 {
					x := stack[len(stack)-1]
					stack = stack[:len(stack)-1]
					if li.blocks[x.Index] {
						continue
					}
					li.blocks[x.Index] = true
					stack = append(stack, x.Preds...)
				}
			}
		}
	}
	var hs []int
	for h := range fr.loops {
		hs = append(hs, h)
	}
	// loop statements in source order
	var stmts []ast.Stmt
	if syn := fn.Syntax(); syn != nil {
		var body ast.Node = syn
		ast.Inspect(body, func(n ast.Node) bool {
			switch x := n.(type) {
			case *ast.FuncLit:
				if n != syn {
					return false
				}
			case *ast.ForStmt:
				stmts = append(stmts, x)
			case *ast.RangeStmt:
				stmts = append(stmts, x)
			}
			return true
		})
	}
	// map each SSA loop to its AST statement: the innermost loop statement that contains the positions of all
	// (non-phi) instructions of the loop's blocks
	stmtOf := map[int]int{}
	used := map[int]bool{}
	okMap := len(stmts) == len(hs)
	for _, h := range hs {
		li := fr.loops[h]
		best := -1
		for si, st := range stmts {
			contains := true
			any := false
			for bi := range li.blocks {
				for _, in := range fn.Blocks[bi].Instrs {
					if _, isPhi := in.(*ssa.Phi); isPhi {
						continue
					}
					p := in.Pos()
					if d, ok := in.(*ssa.DebugRef); ok {
						p = d.Expr.Pos()
					}
					if !p.IsValid() {
						continue
					}
					any = true
					if p < st.Pos() || p >= st.End() {
						contains = false
					}
				}
			}
			if contains && any && (best < 0 || (stmts[si].Pos() >= stmts[best].Pos() && stmts[si].End() <= stmts[best].End())) {
				best = si
			}
		}
		if best < 0 || used[best] {
			okMap = false
			continue
		}
		used[best] = true
		stmtOf[h] = best
	}
	if okMap {
		sort.Slice(hs, func(i, j int) bool { return stmtOf[hs[i]] < stmtOf[hs[j]] })
	} else {
		sort.Ints(hs)
		fr.loopMapBad = true
	}
	for i, h := range hs {
		li := fr.loops[h]
		li.ordinal = i
		if okMap {
			li.stmt = stmts[stmtOf[h]]
			switch x := li.stmt.(type) {
			case *ast.ForStmt:
				li.finger = fr.e.prog.srcText(x.Pos(), x.Body.Lbrace)
			case *ast.RangeStmt:
				li.finger = fr.e.prog.srcText(x.Pos(), x.Body.Lbrace)
			}
		}
		fr.loopList = append(fr.loopList, li)
	}
}

// loopPos: smallest source position of any instruction in the loop (approximates the position of the for statement)
func (fr *Frame) loopPos(h int) token.Pos {
	li := fr.loops[h]
	best := token.Pos(1 << 60)
	for bi := range li.blocks {
		for _, in := range fr.fn.Blocks[bi].Instrs {
			if p := in.Pos(); p.IsValid() && p < best {
				best = p
			}
			if d, ok := in.(*ssa.DebugRef); ok {
				if p := d.Expr.Pos(); p.IsValid() && p < best {
					best = p
				}
			}
		}
	}
	return best
}

// buildEnv computes, for each block, the source-variable -> SSA value map at block exit.
func (fr *Frame) buildEnv() {
	fn := fr.fn
	if len(fn.Blocks) == 0 {
		return
	}
	var walk func(b *ssa.BasicBlock, env map[string]ssa.Value)
	walk = func(b *ssa.BasicBlock, env map[string]ssa.Value) {
		cur := make(map[string]ssa.Value, len(env)+4)
		for k, v := range env {
			cur[k] = v
		}
		for _, in := range b.Instrs {
			switch x := in.(type) {
			case *ssa.Phi:
				if x.Comment != "" {
					cur[x.Comment] = x
				}
			case *ssa.DebugRef:
				if id, ok := x.Expr.(*ast.Ident); ok {
					if _, isVar := x.Object().(*types.Var); isVar {
						cur[id.Name] = x.X
						if x.IsAddr {
							cur["&"+id.Name] = x.X
						}
					}
				}
			case *ssa.Alloc:
				if x.Comment != "" && x.Comment != "complit" && x.Comment != "varargs" && !strings.HasPrefix(x.Comment, "new") {
					cur[x.Comment] = x
					cur["&"+x.Comment] = x
				}
			}
		}
		fr.envAt[b.Index] = cur
		for _, c := range b.Dominees() {
			walk(c, cur)
		}
	}
	env := map[string]ssa.Value{}
	for _, p := range fn.Params {
		env[p.Name()] = p
	}
	for _, fv := range fn.FreeVars {
		env[fv.Name()] = fv
		env["&"+fv.Name()] = fv
	}
	walk(fn.Blocks[0], env)
}

// ancestors: for each block, the set of blocks from which it is reachable along forward (non-back) edges, incl. itself.
func (fr *Frame) ancestors() map[int]map[int]bool {
	anc := map[int]map[int]bool{}
	for _, b := range fr.rpo() {
		s := map[int]bool{b.Index: true}
		for _, p := range b.Preds {
			if fr.isBackEdge(p, b) {
				continue
			}
			for k := range anc[p.Index] {
				s[k] = true
			}
		}
		anc[b.Index] = s
	}
	return anc
}

// rpo returns blocks in reverse post-order ignoring back edges.
func (fr *Frame) rpo() []*ssa.BasicBlock {
	fn := fr.fn
	seen := make([]bool, len(fn.Blocks))
	var post []*ssa.BasicBlock
	var dfs func(b *ssa.BasicBlock)
	dfs = func(b *ssa.BasicBlock) {
		seen[b.Index] = true
		for _, s := range b.Succs {
			if seen[s.Index] || s.Dominates(b) {
				continue
			}
			dfs(s)
		}
		post = append(post, b)
	}
	dfs(fn.Blocks[0])
	for i, j := 0, len(post)-1; i < j; i, j = i+1, j-1 {
		post[i], post[j] = post[j], post[i]
	}
	return post
}

func (fr *Frame) isBackEdge(from, to *ssa.BasicBlock) bool { return to.Dominates(from) }

// mergeStates merges predecessor states under their edge conditions.
func (e *Engine) mergeStates(conds []string, sts []*State) *State {
	if len(sts) == 1 {
		n := sts[0].clone()
		n.cond = conds[0]
		return n
	}
	n := &State{heaps: map[string]string{}}
	n.cond = e.vc.define("reach", "Bool", or(conds...))
	keys := map[string]bool{}
	for _, s := range sts {
		for k := range s.heaps {
			keys[k] = true
		}
	}
	var ks []string
	for k := range keys {
		ks = append(ks, k)
	}
	sort.Strings(ks)
	for _, k := range ks {
		srt := e.heapSorts[k]
		t := e.heap(sts[len(sts)-1], k, srt)
		for i := len(sts) - 2; i >= 0; i-- {
			t = ite(conds[i], e.heap(sts[i], k, srt), t)
		}
		n.heaps[k] = e.vc.define(k, srt, t)
	}
	t := sts[len(sts)-1].top
	for i := len(sts) - 2; i >= 0; i-- {
		t = ite(conds[i], sts[i].top, t)
	}
	n.top = e.vc.define("top", "Int", t)
	return n
}

// ---------- running a function ----------

// run executes the function body from state st with the given arguments.
// Returns the return records (one per reachable Return instruction).
func (fr *Frame) run(st *State, args []Val) []retRec {
	fn := fr.fn
	e := fr.e
	if len(fn.Blocks) == 0 {
		e.unsupported("no body: " + fn.String())
		return nil
	}
	for i, p := range fn.Params {
		if i < len(args) {
			fr.regs[p] = args[i]
		}
	}
	fr.params = args
	fr.entry = st.clone()
	if fr.top {
		e.anc = fr.ancestors()
	}
	for _, b := range fr.rpo() {
		if fr.top {
			e.vc.curTag = b.Index
		}
		var entrySt *State
		if b.Index == 0 {
			entrySt = st
		}
		if !fr.stepBlock(b, entrySt, nil, nil) {
			return nil
		}
	}
	return fr.rets
}

// stepBlock computes the in-state of block b from its (forward) predecessors and executes it.
// entry: explicit in-state (function entry, or the header of a loop body being re-run); phiIn: explicit phi values.
// only: when non-nil, predecessors outside this block set are ignored (re-running a loop body).
func (fr *Frame) stepBlock(b *ssa.BasicBlock, entry *State, phiIn map[*ssa.Phi]Val, only map[int]bool) bool {
	e := fr.e
	var conds []string
	var sts []*State
	var preds []*ssa.BasicBlock
	if entry != nil {
		conds, sts = []string{entry.cond}, []*State{entry}
	} else {
		for _, p := range b.Preds {
			if fr.isBackEdge(p, b) {
				continue
			}
			if only != nil && !only[p.Index] {
				continue
			}
			ps, ok := fr.out[p.Index]
			if !ok {
				continue
			}
			c := fr.edge[[2]int{p.Index, b.Index}]
			if c == "false" || c == "" {
				continue
			}
			conds = append(conds, c)
			sts = append(sts, ps)
			preds = append(preds, p)
		}
	}
	if len(sts) == 0 {
		return true // unreachable
	}
	cur := e.mergeStates(conds, sts)
	phiVals := map[*ssa.Phi]Val{}
	for _, in := range b.Instrs {
		phi, ok := in.(*ssa.Phi)
		if !ok {
			break
		}
		if phiIn != nil {
			if v, ok := phiIn[phi]; ok {
				phiVals[phi] = v
			}
			continue
		}
		var v Val
		first := true
		for i := len(preds) - 1; i >= 0; i-- {
			pi := predIndex(b, preds[i])
			pv := fr.get(phi.Edges[pi])
			if first {
				v = pv
				first = false
			} else {
				v = fr.iteVal(conds[i], pv, v)
			}
		}
		if v.S != "" && len(v.S) > 48 {
			v.S = e.vc.define(phi.Comment+"_phi", e.vc.sortOf(phi.Type()), v.S)
		}
		v.T = phi.Type()
		phiVals[phi] = v
	}
	if li := fr.loops[b.Index]; li != nil && phiIn == nil {
		fr.loopCut(li, cur, phiVals)
		if len(e.oos) > 0 {
			return false
		}
	}
	for phi, v := range phiVals {
		fr.regs[phi] = v
	}
	fr.execBlock(b, cur)
	return len(e.oos) == 0
}

// runLoopBody re-executes one iteration of the map-range loop li from state st with the given header phi values
// and the given (key, value) as the element delivered by the iterator. It returns the state and phi values at
// the back edge, and the condition under which the iteration leaves the loop instead (break / return).
func (fr *Frame) runLoopBody(li *loopInfo, st *State, phiIn map[*ssa.Phi]Val, key, val Val) (*State, map[*ssa.Phi]Val, string) {
	e := fr.e
	sub := &Frame{e: e, fn: fr.fn, regs: map[ssa.Value]Val{}, bindings: fr.bindings, depth: fr.depth, entry: fr.entry, out: map[int]*State{}, edge: map[[2]int]string{},
		loops: fr.loops, loopList: fr.loopList, envAt: fr.envAt, iters: fr.iters, loopHavoc: map[int]map[ssa.Value]Val{}, params: fr.params, label: fr.lbl("commute"),
		contract: nil, quiet: true}
	frameParents[sub] = frameParents[fr]
	for k, v := range fr.regs {
		sub.regs[k] = v
	}
	sub.nextOverride = &[3]Val{{S: "true", T: types.Typ[types.Bool]}, key, val}
	h := li.header
	for _, b := range fr.rpo() {
		if !li.blocks[b.Index] {
			continue
		}
		var ok bool
		if b == h {
			ok = sub.stepBlock(b, st.clone(), phiIn, li.blocks)
		} else {
			ok = sub.stepBlock(b, nil, nil, li.blocks)
		}
		if !ok {
			return nil, nil, "true"
		}
	}
	delete(frameParents, sub)
	// back edges
	var conds []string
	var sts []*State
	var latches []*ssa.BasicBlock
	for _, p := range li.latches {
		c := sub.edge[[2]int{p.Index, h.Index}]
		if ps, ok := sub.out[p.Index]; ok && c != "" && c != "false" {
			conds = append(conds, c)
			sts = append(sts, ps)
			latches = append(latches, p)
		}
	}
	if len(sts) == 0 {
		return nil, nil, "true"
	}
	outSt := e.mergeStates(conds, sts)
	phiOut := map[*ssa.Phi]Val{}
	for _, in := range h.Instrs {
		phi, ok := in.(*ssa.Phi)
		if !ok {
			break
		}
		var v Val
		for i := len(latches) - 1; i >= 0; i-- {
			pv := sub.get(phi.Edges[predIndex(h, latches[i])])
			if i == len(latches)-1 {
				v = pv
			} else {
				v = sub.iteVal(conds[i], pv, v)
			}
		}
		v.T = phi.Type()
		phiOut[phi] = v
	}
	// early exits: edges from loop blocks to blocks outside the loop (other than the header's own exit), returns, panics
	var exits []string
	for bi := range li.blocks {
		b := fr.fn.Blocks[bi]
		for _, s := range b.Succs {
			if li.blocks[s.Index] {
				continue
			}
			if c := sub.edge[[2]int{b.Index, s.Index}]; c != "" && c != "false" {
				exits = append(exits, c)
			}
		}
	}
	for _, r := range sub.rets {
		exits = append(exits, r.cond)
	}
	return outSt, phiOut, or(exits...)
}

func predIndex(b *ssa.BasicBlock, p *ssa.BasicBlock) int {
	for i, x := range b.Preds {
		if x == p {
			return i
		}
	}
	return -1
}

func (fr *Frame) iteVal(c string, a, b Val) Val {
	if a.Clo != nil || b.Clo != nil {
		if sameClosure(a.Clo, b.Clo) {
			return a
		}
		if (a.Clo != nil && a.Clo.unknown) || (b.Clo != nil && b.Clo.unknown) {
			return Val{S: a.S, T: a.T, Clo: &closureVal{unknown: true}}
		}
		// the function called depends on the path: keep one alternative per condition (a missing side is a nil
		// function value, which is never called on a panic-free path)
		alts := append(flattenAlts(c, a.Clo), flattenAlts(not(c), b.Clo)...)
		t := a.T
		if t == nil {
			t = b.T
		}
		return Val{S: a.S, T: t, Clo: &closureVal{alts: alts}}
	}
	if len(a.Tup) > 0 {
		r := Val{T: a.T}
		for i := range a.Tup {
			r.Tup = append(r.Tup, fr.iteVal(c, a.Tup[i], b.Tup[i]))
		}
		return r
	}
	r := Val{S: ite(c, a.S, b.S), T: a.T}
	if a.Addr != nil && b.Addr != nil && a.S == b.S {
		r.Addr = a.Addr
	}
	return r
}

// get returns the symbolic value of an SSA value.
func (fr *Frame) get(v ssa.Value) Val {
	e := fr.e
	switch x := v.(type) {
	case *ssa.Const:
		return e.constVal(x)
	case *ssa.Function:
		return Val{S: e.fnConst(x), T: x.Type(), Clo: &closureVal{fn: x}}
	case *ssa.Global:
		return Val{S: "0", T: x.Type(), Addr: &addr{kind: aGlob, glob: x, T: x.Type().(*types.Pointer).Elem(), rootT: x.Type().(*types.Pointer).Elem()}}
	case *ssa.Builtin:
		return Val{T: x.Type()}
	case *ssa.FreeVar:
		for i, fv := range fr.fn.FreeVars {
			if fv == x && i < len(fr.bindings) {
				return fr.bindings[i]
			}
		}
	}
	if r, ok := fr.regs[v]; ok {
		return r
	}
	e.unsupported(fmt.Sprintf("undefined SSA value %s (%T) in %s", v.Name(), v, fr.fn.Name()))
	return Val{S: e.vc.fresh("undef", e.vc.sortOf(v.Type())), T: v.Type()}
}

func (e *Engine) fnConst(fn *ssa.Function) string {
	name := "fn_" + mangle(fn.String())
	e.vc.declSort(fmt.Sprintf("(declare-const %s Fn)", name))
	return name
}

func (e *Engine) constVal(c *ssa.Const) Val {
	t := c.Type()
	if c.Value == nil {
		return Val{S: e.zero(t), T: t}
	}
	switch kindOf(t) {
	case kInt:
		if v, ok := constant.Int64Val(constant.ToInt(c.Value)); ok {
			return Val{S: intLit64(v), T: t}
		}
		bi, _ := new(big.Int).SetString(constant.ToInt(c.Value).ExactString(), 10)
		return Val{S: intLit(bi), T: t}
	case kBool:
		if constant.BoolVal(c.Value) {
			return Val{S: "true", T: t}
		}
		return Val{S: "false", T: t}
	case kStr:
		return Val{S: e.vc.strLit(constant.StringVal(c.Value)), T: t}
	case kReal:
		f, _ := constant.Float64Val(c.Value)
		r := new(big.Rat)
		r.SetFloat64(f)
		return Val{S: fmt.Sprintf("(/ %s.0 %s.0)", intLit(r.Num()), r.Denom().String()), T: t}
	}
	return Val{S: e.zero(t), T: t}
}

// ---------- memory ----------

func (fr *Frame) addrOf(v Val) *addr {
	if v.Addr != nil {
		return v.Addr
	}
	pt, ok := types.Unalias(v.T).Underlying().(*types.Pointer)
	if !ok {
		fr.e.unsupported("address of non-pointer " + v.T.String())
		return &addr{kind: aObj, rootT: v.T, T: v.T, ref: v.S}
	}
	return &addr{kind: aObj, rootT: pt.Elem(), T: pt.Elem(), ref: v.S}
}

// forward resolves (select H ref) through the chain of stores that define H when the answer is syntactically
// determined: a store to the same reference yields the stored value; stores to other allocation references are skipped.
func (e *Engine) forward(h, ref string) (string, bool) {
	for i := 0; i < 64; i++ {
		def, ok := e.vc.defs[h]
		if !ok {
			return "", false
		}
		x := parseSx(def)
		if x == nil || len(x.list) != 4 || x.list[0].atom != "store" {
			return "", false
		}
		r := x.list[2].String()
		if r == ref {
			return x.list[3].String(), true
		}
		if e.allocRefs[r] && e.allocRefs[ref] {
			h = x.list[1].String()
			continue
		}
		return "", false
	}
	return "", false
}

func (e *Engine) loadRoot(st *State, a *addr) string {
	switch a.kind {
	case aObj:
		hn, hs := e.vc.heapName(a.rootT)
		if v, ok := e.forward(e.heap(st, hn, hs), a.ref); ok {
			return e.vc.define("fw", e.vc.sortOf(a.rootT), v)
		}
		return app("select", e.heap(st, hn, hs), a.ref)
	case aElem:
		hn, hs := e.vc.arrHeapName(a.rootT)
		if a.idx == "" {
			// the whole backing array (address of an array-typed local)
			return app("select", e.heap(st, hn, hs), a.ref)
		}
		return app("select", app("select", e.heap(st, hn, hs), a.ref), a.idx)
	case aGlob:
		name := "glob_" + mangle(a.glob.String())
		gs := e.vc.sortOf(a.rootT)
		return e.heap(st, name, gs)
	}
	return "?"
}

func (e *Engine) storeRoot(st *State, a *addr, v string) {
	switch a.kind {
	case aObj:
		hn, hs := e.vc.heapName(a.rootT)
		e.setHeap(st, hn, hs, app("store", e.heap(st, hn, hs), a.ref, v))
	case aElem:
		hn, hs := e.vc.arrHeapName(a.rootT)
		h := e.heap(st, hn, hs)
		if a.idx == "" {
			e.setHeap(st, hn, hs, app("store", h, a.ref, v))
			break
		}
		e.setHeap(st, hn, hs, app("store", h, a.ref, app("store", app("select", h, a.ref), a.idx, v)))
	case aGlob:
		name := "glob_" + mangle(a.glob.String())
		e.setHeap(st, name, e.vc.sortOf(a.rootT), v)
	}
}

func (e *Engine) pathGet(root string, path []pathStep) string {
	t := root
	for _, p := range path {
		if p.field >= 0 {
			ss := e.vc.structInfo(p.ct)
			if ss.opaque {
				e.vc.declFun(ss.fields[p.field], []string{ss.name}, e.vc.sortOf(ss.ftypes[p.field]))
			}
			t = app(ss.fields[p.field], t)
		} else {
			t = app("select", t, p.idx)
		}
	}
	return t
}

func (e *Engine) pathSet(root string, path []pathStep, v string) string {
	if len(path) == 0 {
		return v
	}
	p := path[0]
	if p.field >= 0 {
		ss := e.vc.structInfo(p.ct)
		if ss.opaque {
			// opaque (foreign) struct: the updated value is a fresh value that agrees with the old one on every
			// other field and has the new content in the written field
			nv := e.vc.fresh("upd", ss.name)
			for i, sel := range ss.fields {
				e.vc.declFun(sel, []string{ss.name}, e.vc.sortOf(ss.ftypes[i]))
				if i == p.field {
					e.vc.assume(eq(app(sel, nv), e.pathSet(app(sel, root), path[1:], v)))
				} else {
					e.vc.assume(eq(app(sel, nv), app(sel, root)))
				}
			}
			return nv
		}
		var fs []string
		for i, sel := range ss.fields {
			if i == p.field {
				fs = append(fs, e.pathSet(app(sel, root), path[1:], v))
			} else {
				fs = append(fs, app(sel, root))
			}
		}
		return app("mk_"+ss.name, fs...)
	}
	return app("store", root, p.idx, e.pathSet(app("select", root, p.idx), path[1:], v))
}

func (fr *Frame) load(st *State, a *addr) Val {
	e := fr.e
	if kindOf(a.T) == kMathInt && a.kind == aObj && len(a.path) == 0 && namedPath(a.rootT) == "math/big.Int" {
		return Val{S: a.ref, T: a.T}
	}
	if a.kind == aGlob && len(a.path) == 0 {
		if c := e.prog.globalConst(a.glob); c != nil {
			return e.constVal(c)
		}
		if a.glob.String() == "cosmossdk.io/collections.ErrNotFound" {
			return Val{S: e.notFoundErr(), T: a.T}
		}
		if lit, ok := trustedGlobals[a.glob.String()]; ok {
			e.note("approx", "global "+a.glob.String()+" taken as the constant "+lit+" (initialised once, never reassigned in layer)")
			return Val{S: lit, T: a.T}
		}
	}
	root := e.loadRoot(st, a)
	t := e.pathGet(root, a.path)
	v := Val{S: t, T: a.T}
	if inv := e.typeInv(t, a.T); inv != "true" || kindOf(a.T) == kStruct {
		v.S = e.vc.define("ld", e.vc.sortOf(a.T), t)
		e.assumeIn(st, and(e.typeInv(v.S, a.T), e.allocInv(st, v.S, a.T)))
	}
	if a.kind == aGlob {
		if kindOf(a.T) == kIface && strings.HasPrefix(a.glob.Name(), "Err") {
			e.vc.assume(not(eq(v.S, "iface_nil")))
		}
	}
	return v
}

func (fr *Frame) store(st *State, a *addr, v Val) {
	e := fr.e
	root := e.loadRoot(st, a)
	if len(a.path) == 0 {
		e.storeRoot(st, a, v.S)
		return
	}
	e.storeRoot(st, a, e.pathSet(root, a.path, v.S))
}

// alloc allocates a fresh object reference.
func (e *Engine) alloc(st *State) string {
	ref := st.top
	st.top = e.vc.define("top", "Int", app("+", st.top, "1"))
	if e.allocBase[ref] == "" {
		e.allocBase[ref] = ref
	}
	e.allocBase[st.top] = e.allocBase[ref]
	e.allocRefs[ref] = true
	return ref
}

// ---------- loops ----------

func (fr *Frame) loopCut(li *loopInfo, cur *State, phiVals map[*ssa.Phi]Val) {
	e := fr.e
	h := li.header
	// resolver for the entry values
	entryEnv := fr.invEnv(li, cur, phiVals)
	invs := fr.loopInvariants(li)
	for _, inv := range invs {
		f := e.evalBool(inv.expr, entryEnv)
		o := e.addObl(cur, fmt.Sprintf("loop%d.inv.init", li.nameOrd()), fr.lbl(inv.label), f, h.Instrs[0].Pos())
		_ = o
	}
	// havoc: phis at header
	hv := map[ssa.Value]Val{}
	for _, hin := range h.Instrs {
		phi, isPhi := hin.(*ssa.Phi)
		if !isPhi {
			break
		}
		v, okv := phiVals[phi]
		if !okv {
			continue
		}
		if v.Clo != nil {
			// a loop-carried function variable: unknown at the head of an arbitrary iteration
			nv := Val{S: v.S, T: phi.Type(), Clo: &closureVal{unknown: true}}
			phiVals[phi] = nv
			hv[phi] = nv
			continue
		}
		if len(v.Tup) > 0 {
			continue
		}
		c := e.vc.fresh("loop_"+phi.Comment, e.vc.sortOf(phi.Type()))
		nv := Val{S: c, T: phi.Type()}
		e.assumeIn(cur, e.typeInv(c, phi.Type()))
		phiVals[phi] = nv
		hv[phi] = nv
	}
	fr.loopHavoc[h.Index] = hv
	// havoc: heaps modified in the loop
	topEntry := cur.top
	mods := fr.loopMods(li)
	var modNames []string
	for n := range mods {
		modNames = append(modNames, n)
	}
	sort.Strings(modNames)
	autoFrame := fr.autoFrameHeaps(mods)
	for _, n := range autoFrame {
		srt := e.heapSorts[n]
		e.addObl(cur, fmt.Sprintf("loop%d.inv.init", li.nameOrd()), fr.lbl("auto_frame_"+n), eq(e.heap(cur, n, srt), e.heap(fr.entry, n, srt)), h.Instrs[0].Pos())
	}
	for _, name := range modNames {
		if name == "G_*" {
			e.havocGhost(cur)
			continue
		}
		srt, ok := e.heapSorts[name]
		if !ok {
			continue
		}
		old := e.heap(cur, name, srt)
		nw := e.vc.fresh(name, srt)
		cur.heaps[name] = nw
		m := mods[name]
		if strings.HasPrefix(name, "H_") || strings.HasPrefix(name, "A_") || strings.HasPrefix(name, "MV_") || strings.HasPrefix(name, "MD_") {
			// frame: objects allocated before the loop and not stored to in the loop are unchanged
			if !m.all {
				var exc []string
				for _, r := range m.refs {
					exc = append(exc, not(eq("r", r)))
				}
				body := implies(and(append([]string{app("<", "r", topEntry)}, exc...)...), eq(app("select", nw, "r"), app("select", old, "r")))
				e.vc.assume(fmt.Sprintf("(forall ((r Int)) (! %s :pattern ((select %s r))))", body, nw))
			}
		}
	}
	for _, n := range autoFrame {
		cur.heaps[n] = e.heap(fr.entry, n, e.heapSorts[n])
	}
	// the call log (called(F), arg, ret, argsum, retsum) of every layer function the loop body may call is unknown
	// at the head of an arbitrary iteration
	{
		lh := map[string]string{}
		fr.loopLogHeaps(fr.fn, li.blocks, 0, lh, map[*ssa.Function]bool{})
		e.havocLogHeaps(cur, lh)
	}
	{
		nt := e.vc.fresh("top", "Int")
		e.vc.assume(app(">=", nt, topEntry))
		cur.top = nt
	}
	// references held in loop-carried variables denote objects allocated before the current iteration
	for _, hin := range h.Instrs {
		phi, isPhi := hin.(*ssa.Phi)
		if !isPhi {
			break
		}
		if nv, ok := hv[phi]; ok {
			e.assumeIn(cur, e.allocInv(cur, nv.S, phi.Type()))
		}
	}
	// iterators started before the loop and advanced inside: their seen-set is havocked via heaps (it lives in heaps)
	assumeEnv := fr.invEnv(li, cur, phiVals)
	for _, inv := range invs {
		f := e.evalBool(inv.expr, assumeEnv)
		e.assumeIn(cur, f)
	}
	if e.quiet == 0 {
		fr.commuteObls(li, cur, phiVals, mods)
	}
}

// commuteObls: for a loop that ranges over a Go map, the result must not depend on the iteration order.
// Obligation: from an arbitrary loop state, processing two distinct entries in either order yields the same
// loop-carried values and the same memory; and no iteration leaves the loop early.
func (fr *Frame) commuteObls(li *loopInfo, cur *State, phiVals map[*ssa.Phi]Val, mods map[string]*modInfo) {
	e := fr.e
	var nx *ssa.Next
	for _, in := range li.header.Instrs {
		if n, ok := in.(*ssa.Next); ok && !n.IsString {
			nx = n
		}
	}
	if nx == nil {
		return
	}
	it := fr.iters[nx.Iter]
	if it == nil {
		return
	}
	mt := types.Unalias(it.m.T).Underlying().(*types.Map)
	vn, vs, dn, ds := e.vc.mapHeapName(mt.Key(), mt.Elem())
	ksort := e.vc.sortOf(mt.Key())
	dom := app("select", e.heap(cur, dn, ds), it.m.S)
	vals := app("select", e.heap(cur, vn, vs), it.m.S)
	k1, k2 := e.vc.fresh("ck1", ksort), e.vc.fresh("ck2", ksort)
	base := cur.clone()
	base.cond = e.vc.define("commute", "Bool", and(cur.cond, app("select", dom, k1), app("select", dom, k2), not(eq(k1, k2))))
	mk := func(k string) (Val, Val) {
		v := e.vc.define("cv", e.vc.sortOf(mt.Elem()), app("select", vals, k))
		e.vc.assume(and(e.typeInv(k, mt.Key()), e.typeInv(v, mt.Elem())))
		return Val{S: k, T: mt.Key()}, Val{S: v, T: mt.Elem()}
	}
	ka, va := mk(k1)
	kb, vb := mk(k2)
	e.quiet++
	s1, p1, x1 := fr.runLoopBody(li, base, phiVals, ka, va)
	var s12, s21 *State
	var p12, p21 map[*ssa.Phi]Val
	x12, x2, x21 := "true", "true", "true"
	if s1 != nil {
		s12, p12, x12 = fr.runLoopBody(li, s1, p1, kb, vb)
	}
	s2, p2, xx2 := fr.runLoopBody(li, base, phiVals, kb, vb)
	x2 = xx2
	if s2 != nil {
		s21, p21, x21 = fr.runLoopBody(li, s2, p2, ka, va)
	}
	e.quiet--
	ord := li.nameOrd()
	if s12 == nil || s21 == nil {
		e.addObl(base, fmt.Sprintf("order.loop%d", ord), fr.lbl("body_runs_to_the_back_edge"), "false", li.header.Instrs[0].Pos())
		return
	}
	e.addObl(base, fmt.Sprintf("order.loop%d", ord), fr.lbl("no_early_exit"), not(or(x1, x12, x2, x21)), li.header.Instrs[0].Pos())
	chk := base.clone()
	chk.cond = e.vc.define("commute2", "Bool", and(base.cond, not(or(x1, x12, x2, x21))))
	for _, in := range li.header.Instrs {
		phi, ok := in.(*ssa.Phi)
		if !ok {
			break
		}
		a, b := p12[phi], p21[phi]
		if a.S == "" || b.S == "" || a.S == "addr" || len(a.Tup) > 0 {
			continue
		}
		name := phi.Comment
		if name == "" {
			name = phi.Name()
		}
		e.addObl(chk, fmt.Sprintf("order.loop%d", ord), fr.lbl("same_"+name), eq(a.S, b.S), li.header.Instrs[0].Pos())
	}
	var names []string
	for n := range mods {
		names = append(names, n)
	}
	sort.Strings(names)
	for _, n := range names {
		if n == it.seen || n == "G_*" {
			continue
		}
		srt, ok := e.heapSorts[n]
		if !ok {
			continue
		}
		a, b := e.heap(s12, n, srt), e.heap(s21, n, srt)
		if a == b {
			continue
		}
		e.addObl(chk, fmt.Sprintf("order.loop%d", ord), fr.lbl("same_memory_"+n), eq(a, b), li.header.Instrs[0].Pos())
	}
}

type modInfo struct {
	all  bool
	refs []string
}

// loopMods: heaps that may be modified inside the loop (syntactic over-approximation).
// autoFrameHeaps: ghost heaps that the loop may syntactically modify (usually through a call the analysis cannot
// resolve) but that the contract of the function under verification does not list in `modifies`. They get the
// automatic loop invariant "equal to its value on entry of the function" (checked like any invariant), instead
// of being lost at the loop cut.
func (fr *Frame) autoFrameHeaps(mods map[string]*modInfo) []string {
	e := fr.e
	if !fr.top || fr.contract == nil {
		return nil
	}
	allowed := map[string]bool{}
	for _, m := range e.expandMods(fr.contract.Modifies) {
		n := e.modName(m)
		if n == "G_*" {
			return nil
		}
		allowed[n] = true
	}
	var out []string
	seen := map[string]bool{}
	add := func(n string) {
		if strings.HasPrefix(n, "G_") && n != "G_*" && !allowed[n] && !seen[n] {
			if _, ok := e.heapSorts[n]; ok {
				seen[n] = true
				out = append(out, n)
			}
		}
	}
	for n := range mods {
		if n == "G_*" {
			for k := range e.heapSorts {
				add(k)
			}
		} else {
			add(n)
		}
	}
	sort.Strings(out)
	return out
}

func (fr *Frame) loopMods(li *loopInfo) map[string]*modInfo {
	mods := map[string]*modInfo{}
	fr.modLoop = li.blocks
	fr.modsOf(fr.fn, li.blocks, 0, mods, true)
	fr.modLoop = nil
	return mods
}

func modAdd(mods map[string]*modInfo, name string, ref string, all bool) {
	m := mods[name]
	if m == nil {
		m = &modInfo{}
		mods[name] = m
	}
	if all {
		m.all = true
	} else if ref != "" {
		m.refs = append(m.refs, ref)
	}
}

// modsOf collects the heaps that the given blocks of fn may modify. own: fn is the frame's own function
// (allocation sites outside the loop can then be framed by their reference).
func (fr *Frame) modsOf(fn *ssa.Function, blocks map[int]bool, depth int, mods map[string]*modInfo, own bool) {
	e := fr.e
	add := func(name, ref string, all bool) { modAdd(mods, name, ref, all) }
	var rootOf func(v ssa.Value) ssa.Value
	rootOf = func(v ssa.Value) ssa.Value {
		switch x := v.(type) {
		case *ssa.FieldAddr:
			return rootOf(x.X)
		case *ssa.IndexAddr:
			if _, isPtr := types.Unalias(x.X.Type()).Underlying().(*types.Pointer); isPtr {
				return rootOf(x.X)
			}
			return x.X
		}
		return v
	}
	inBlocks := func(b *ssa.BasicBlock) bool { return blocks == nil || blocks[b.Index] }
	for _, b := range fn.Blocks {
		if !inBlocks(b) {
			continue
		}
		for _, in := range b.Instrs {
			switch x := in.(type) {
			case *ssa.Store:
				root := rootOf(x.Addr)
				al, isAlloc := root.(*ssa.Alloc)
				inLoopAlloc := isAlloc && inBlocks(al.Block())
				switch rt := types.Unalias(root.Type()).Underlying().(type) {
				case *types.Pointer:
					if kindOf(rt) == kMathInt {
						continue
					}
					if at, ok := types.Unalias(rt.Elem()).Underlying().(*types.Array); ok {
						hn, hs := e.vc.arrHeapName(at.Elem())
						e.heapSorts[hn] = hs
						if inLoopAlloc {
							add(hn, "", false)
						} else if isAlloc && own {
							if rv, ok := fr.regs[al]; ok {
								add(hn, rv.S, false)
							} else {
								add(hn, "", true)
							}
						} else {
							add(hn, "", true)
						}
						continue
					}
					hn, hs := e.vc.heapName(rt.Elem())
					e.heapSorts[hn] = hs
					if inLoopAlloc {
						add(hn, "", false)
					} else if isAlloc && own {
						if rv, ok := fr.regs[al]; ok {
							add(hn, rv.S, false)
						} else {
							add(hn, "", true)
						}
					} else if g, ok := root.(*ssa.Global); ok {
						add("glob_"+mangle(g.String()), "", true)
						e.heapSorts["glob_"+mangle(g.String())] = e.vc.sortOf(rt.Elem())
					} else if fv, ok := root.(*ssa.FreeVar); ok && own {
						// closure-captured variable: reference known from bindings
						rv := fr.get(fv)
						add(hn, rv.S, false)
					} else if fv, ok := root.(*ssa.FreeVar); ok && fr.fvBind[fn] != nil {
						// a closure created in the function under analysis writes a captured local of that function
						done := false
						for i, f2 := range fn.FreeVars {
							if f2 != fv || i >= len(fr.fvBind[fn]) {
								continue
							}
							if al2, ok := fr.fvBind[fn][i].(*ssa.Alloc); ok && al2.Parent() == fr.fn {
								if fr.modLoop != nil && fr.modLoop[al2.Block().Index] {
									add(hn, "", false) // the cell is allocated inside the loop
									done = true
								} else if rv, ok := fr.regs[al2]; ok {
									add(hn, rv.S, false)
									done = true
								}
							}
						}
						if !done {
							add(hn, "", true)
						}
					} else {
						add(hn, "", true)
					}
				case *types.Slice:
					hn, hs := e.vc.arrHeapName(rt.Elem())
					e.heapSorts[hn] = hs
					add(hn, "", true)
				}
			case *ssa.MapUpdate:
				mt := types.Unalias(x.Map.Type()).Underlying().(*types.Map)
				vn, vs, dn, ds := e.vc.mapHeapName(mt.Key(), mt.Elem())
				e.heapSorts[vn], e.heapSorts[dn] = vs, ds
				if mk, ok := x.Map.(*ssa.MakeMap); ok && own && !inBlocks(mk.Block()) {
					if rv, ok := fr.regs[mk]; ok {
						add(vn, rv.S, false)
						add(dn, rv.S, false)
						continue
					}
				}
				if mk, ok := x.Map.(*ssa.MakeMap); ok && inBlocks(mk.Block()) {
					add(vn, "", false)
					add(dn, "", false)
					continue
				}
				add(vn, "", true)
				add(dn, "", true)
			case *ssa.Alloc:
				pt := x.Type().(*types.Pointer)
				if kindOf(pt) == kMathInt {
					continue
				}
				if at, ok := types.Unalias(pt.Elem()).Underlying().(*types.Array); ok {
					hn, hs := e.vc.arrHeapName(at.Elem())
					e.heapSorts[hn] = hs
					add(hn, "", false)
					continue
				}
				hn, hs := e.vc.heapName(pt.Elem())
				e.heapSorts[hn] = hs
				add(hn, "", false)
			case *ssa.MakeSlice:
				st := types.Unalias(x.Type()).Underlying().(*types.Slice)
				hn, hs := e.vc.arrHeapName(st.Elem())
				e.heapSorts[hn] = hs
				add(hn, "", false)
			case *ssa.MakeMap:
				mt := types.Unalias(x.Type()).Underlying().(*types.Map)
				vn, vs, dn, ds := e.vc.mapHeapName(mt.Key(), mt.Elem())
				e.heapSorts[vn], e.heapSorts[dn] = vs, ds
				add(vn, "", false)
				add(dn, "", false)
			case *ssa.Convert:
				if kindOf(x.Type()) == kSlice {
					st := types.Unalias(x.Type()).Underlying().(*types.Slice)
					hn, hs := e.vc.arrHeapName(st.Elem())
					e.heapSorts[hn] = hs
					add(hn, "", false)
				}
			case *ssa.Slice:
				if pt, ok := types.Unalias(x.X.Type()).Underlying().(*types.Pointer); ok {
					if at, ok := types.Unalias(pt.Elem()).Underlying().(*types.Array); ok {
						hn, hs := e.vc.arrHeapName(at.Elem())
						e.heapSorts[hn] = hs
						add(hn, "", false)
					}
				}
			case *ssa.Range:
				// iterator created inside: its seen-set is created inside too
			case *ssa.Next:
				if own {
					if it, ok := fr.iters[x.Iter]; ok {
						add(it.seen, "", true)
					}
				}
			case ssa.CallInstruction:
				e.callMods(fr, fn, x, depth, mods, own)
			}
		}
	}
}

// ---------- block execution ----------

func (fr *Frame) lbl(s string) string {
	if fr.label != "" {
		if s == "" {
			return fr.label
		}
		return fr.label + "/" + s
	}
	return s
}

func (fr *Frame) exprLabel(in ssa.Instruction, fallback string) string {
	pos := in.Pos()
	_ = pos
	return fallback
}

func (fr *Frame) execBlock(b *ssa.BasicBlock, st *State) {
	e := fr.e
	for _, in := range b.Instrs {
		if len(e.oos) > 0 {
			return
		}
		switch x := in.(type) {
		case *ssa.Phi, *ssa.DebugRef:
			// handled elsewhere
		case *ssa.Alloc:
			fr.doAlloc(x, st)
		case *ssa.BinOp:
			fr.regs[x] = fr.binop(x, st)
		case *ssa.UnOp:
			fr.regs[x] = fr.unop(x, st)
		case *ssa.Call:
			fr.regs[x] = fr.call(x, st)
		case *ssa.ChangeType:
			v := fr.get(x.X)
			fr.regs[x] = fr.changeType(v, x.Type())
		case *ssa.Convert:
			fr.regs[x] = fr.convert(x, st)
		case *ssa.MakeInterface:
			fr.regs[x] = fr.makeIface(fr.get(x.X), x.Type())
		case *ssa.ChangeInterface:
			v := fr.get(x.X)
			v.T = x.Type()
			fr.regs[x] = v
		case *ssa.TypeAssert:
			fr.regs[x] = fr.typeAssert(x, st)
		case *ssa.Extract:
			t := fr.get(x.Tuple)
			if x.Index < len(t.Tup) {
				fr.regs[x] = t.Tup[x.Index]
			} else {
				e.unsupported("extract from non-tuple")
			}
		case *ssa.Field:
			v := fr.get(x.X)
			ss := e.vc.structInfo(x.X.Type())
			if ss == nil {
				e.unsupported("field of non-struct " + x.X.Type().String())
				return
			}
			if ss.opaque {
				e.vc.declFun(ss.fields[x.Field], []string{ss.name}, e.vc.sortOf(ss.ftypes[x.Field]))
			}
			fv := Val{S: app(ss.fields[x.Field], v.S), T: x.Type()}
			if inv := e.typeInv(fv.S, fv.T); inv != "true" {
				e.assumeIn(st, inv)
			}
			fr.regs[x] = fv
		case *ssa.FieldAddr:
			base := fr.get(x.X)
			a := fr.addrOf(base)
			st0 := types.Unalias(a.T).Underlying()
			stt, ok := st0.(*types.Struct)
			if !ok {
				e.unsupported("fieldaddr on non-struct " + a.T.String())
				return
			}
			// nil dereference obligation for non-allocated roots
			if a.kind == aObj && len(a.path) == 0 && base.Addr == nil {
				if e.ghostOfValue(x.X) != nil {
					// a collections store of a keeper (k.Store.Indexes...): set once by NewKeeper, never nil
					e.note("approx", "collections stores held by a keeper are non-nil (constructed by NewKeeper)")
					e.assumeIn(st, not(eq(a.ref, "0")))
				} else {
					e.addObl(st, "panic.nil", fr.lbl(fr.srcOf(x, x.X.Name()+"."+stt.Field(x.Field).Name())), not(eq(a.ref, "0")), x.Pos())
				}
			}
			// lock discipline: a field declared "guarded" is touched only with the lock held (objects still under
			// construction in this function -- local allocations -- are not shared yet)
			if a.kind == aObj && base.Addr == nil && len(e.prog.Guarded) > 0 {
				if nt, ok := types.Unalias(a.T).(*types.Named); ok && nt.Obj().Pkg() != nil {
					gk := strings.TrimPrefix(nt.Obj().Pkg().Path(), modPath+"/") + "." + nt.Obj().Name() + "." + stt.Field(x.Field).Name()
					if e.prog.Guarded[gk] {
						e.initHeap("lock_held", "Bool")
						e.addObl(st, "guard", fr.lbl(nt.Obj().Name()+"."+stt.Field(x.Field).Name()+"_touched_with_the_lock_held"), e.heap(st, "lock_held", "Bool"), x.Pos())
					}
				}
			}
			na := *a
			na.path = append(append([]pathStep{}, a.path...), pathStep{field: x.Field, ct: a.T})
			na.T = stt.Field(x.Field).Type()
			fr.regs[x] = Val{S: "addr", T: x.Type(), Addr: &na}
		case *ssa.Index:
			fr.regs[x] = fr.indexVal(x, st)
		case *ssa.IndexAddr:
			fr.regs[x] = fr.indexAddr(x, st)
		case *ssa.Lookup:
			fr.regs[x] = fr.lookup(x, st)
		case *ssa.MapUpdate:
			fr.mapUpdate(x, st)
		case *ssa.MakeMap:
			mt := types.Unalias(x.Type()).Underlying().(*types.Map)
			vn, vs, dn, ds := e.vc.mapHeapName(mt.Key(), mt.Elem())
			ref := e.alloc(st)
			e.setHeap(st, dn, ds, app("store", e.heap(st, dn, ds), ref, e.constArray(e.vc.sortOf(mt.Key()), "Bool", "false")))
			e.setHeap(st, vn, vs, app("store", e.heap(st, vn, vs), ref, e.constArray(e.vc.sortOf(mt.Key()), e.vc.sortOf(mt.Elem()), e.zero(mt.Elem()))))
			fr.regs[x] = Val{S: ref, T: x.Type()}
		case *ssa.MakeSlice:
			sl := types.Unalias(x.Type()).Underlying().(*types.Slice)
			ln := fr.get(x.Len)
			e.addObl(st, "panic.makeslice", fr.lbl(fr.srcOf(x, "make")), app(">=", ln.S, "0"), x.Pos())
			hn, hs := e.vc.arrHeapName(sl.Elem())
			ref := e.alloc(st)
			e.setHeap(st, hn, hs, app("store", e.heap(st, hn, hs), ref, e.constArray("Int", e.vc.sortOf(sl.Elem()), e.zero(sl.Elem()))))
			fr.regs[x] = Val{S: app("mk_slice", ref, "0", ln.S), T: x.Type()}
		case *ssa.MakeClosure:
			fn := x.Fn.(*ssa.Function)
			cv := &closureVal{fn: fn}
			for _, b := range x.Bindings {
				cv.bindings = append(cv.bindings, fr.get(b))
			}
			fr.regs[x] = Val{S: e.fnConst(fn), T: x.Type(), Clo: cv}
		case *ssa.Slice:
			fr.regs[x] = fr.sliceOp(x, st)
		case *ssa.Store:
			a := fr.addrOf(fr.get(x.Addr))
			fr.store(st, a, fr.get(x.Val))
		case *ssa.Range:
			fr.doRange(x, st)
		case *ssa.Next:
			fr.regs[x] = fr.doNext(x, st)
		case *ssa.Defer:
			dr := deferRec{d: x, cond: st.cond}
			for _, a := range x.Call.Args {
				dr.args = append(dr.args, fr.get(a))
			}
			if !x.Call.IsInvoke() {
				if _, isB := x.Call.Value.(*ssa.Builtin); !isB {
					dr.fn = fr.get(x.Call.Value)
				}
			} else {
				dr.fn = fr.get(x.Call.Value)
			}
			fr.deferSt = append(fr.deferSt, dr)
		case *ssa.RunDefers:
			for i := len(fr.deferSt) - 1; i >= 0; i-- {
				fr.runDeferred(fr.deferSt[i], st)
			}
		case *ssa.If:
			c := fr.get(x.Cond).S
			fr.out[b.Index] = st
			fr.edge[[2]int{b.Index, b.Succs[0].Index}] = e.vc.define("edge", "Bool", and(st.cond, c))
			fr.edge[[2]int{b.Index, b.Succs[1].Index}] = e.vc.define("edge", "Bool", and(st.cond, not(c)))
			fr.backEdges(b, st)
			return
		case *ssa.Jump:
			fr.out[b.Index] = st
			fr.edge[[2]int{b.Index, b.Succs[0].Index}] = st.cond
			fr.backEdges(b, st)
			return
		case *ssa.Return:
			var vals []Val
			for _, r := range x.Results {
				vals = append(vals, fr.get(r))
			}
			fr.rets = append(fr.rets, retRec{cond: st.cond, vals: vals, st: st, pos: x.Pos()})
			fr.out[b.Index] = st
			return
		case *ssa.Panic:
			lab := "explicit"
			if mi, ok := x.X.(*ssa.MakeInterface); ok {
				if c, ok := mi.X.(*ssa.Const); ok && c.Value != nil && c.Value.Kind() == constant.String {
					lab = "explicit(" + shortLabel(constant.StringVal(c.Value)) + ")"
				}
			}
			e.addObl(st, "panic", fr.lbl(lab), "false", x.Pos())
			fr.out[b.Index] = st
			return
		case *ssa.Go, *ssa.Select, *ssa.Send, *ssa.MakeChan:
			e.unsupported(fmt.Sprintf("concurrency instruction %T in %s", in, fr.fn.Name()))
			return
		default:
			e.unsupported(fmt.Sprintf("instruction %T in %s", in, fr.fn.Name()))
			return
		}
	}
}

func shortLabel(s string) string {
	s = strings.Join(strings.Fields(s), "_")
	if len(s) > 40 {
		s = s[:40]
	}
	return s
}

// srcOf returns a stable label for an instruction: the source text of its expression.
func (fr *Frame) srcOf(in ssa.Instruction, fallback string) string {
	return shortLabel(fallback)
}

// backEdges: at the end of a latch block, check loop invariants are preserved.
func (fr *Frame) backEdges(b *ssa.BasicBlock, st *State) {
	e := fr.e
	for _, s := range b.Succs {
		if !fr.isBackEdge(b, s) {
			continue
		}
		li := fr.loops[s.Index]
		if li == nil {
			continue
		}
		ec := fr.edge[[2]int{b.Index, s.Index}]
		pi := predIndex(s, b)
		phiVals := map[*ssa.Phi]Val{}
		for _, in := range s.Instrs {
			phi, ok := in.(*ssa.Phi)
			if !ok {
				break
			}
			phiVals[phi] = fr.get(phi.Edges[pi])
		}
		bst := st.clone()
		bst.cond = ec
		env := fr.invEnv(li, bst, phiVals)
		for _, inv := range fr.loopInvariants(li) {
			f := e.evalBool(inv.expr, env)
			e.addObl(bst, fmt.Sprintf("loop%d.inv.preserved", li.nameOrd()), fr.lbl(inv.label), f, b.Instrs[len(b.Instrs)-1].Pos())
		}
		for _, n := range fr.autoFrameHeaps(fr.loopMods(li)) {
			srt := e.heapSorts[n]
			e.addObl(bst, fmt.Sprintf("loop%d.inv.preserved", li.nameOrd()), fr.lbl("auto_frame_"+n), eq(e.heap(bst, n, srt), e.heap(fr.entry, n, srt)), b.Instrs[len(b.Instrs)-1].Pos())
		}
	}
}

func (fr *Frame) doAlloc(x *ssa.Alloc, st *State) {
	e := fr.e
	pt := x.Type().(*types.Pointer)
	if kindOf(pt) == kMathInt {
		fr.regs[x] = Val{S: "0", T: pt}
		return
	}
	if at, ok := types.Unalias(pt.Elem()).Underlying().(*types.Array); ok {
		hn, hs := e.vc.arrHeapName(at.Elem())
		ref := e.alloc(st)
		e.setHeap(st, hn, hs, app("store", e.heap(st, hn, hs), ref, e.zero(at)))
		fr.regs[x] = Val{S: ref, T: pt, Addr: &addr{kind: aElem, rootT: at.Elem(), ref: ref, idx: "", T: at}}
		return
	}
	hn, hs := e.vc.heapName(pt.Elem())
	ref := e.alloc(st)
	e.setHeap(st, hn, hs, app("store", e.heap(st, hn, hs), ref, e.zero(pt.Elem())))
	fr.regs[x] = Val{S: ref, T: pt, Addr: &addr{kind: aObj, rootT: pt.Elem(), ref: ref, T: pt.Elem()}}
}

func isUnsigned(t types.Type) bool {
	b, ok := types.Unalias(t).Underlying().(*types.Basic)
	return ok && b.Info()&types.IsUnsigned != 0
}

func (fr *Frame) binop(x *ssa.BinOp, st *State) Val {
	e := fr.e
	a, b := fr.get(x.X), fr.get(x.Y)
	t := x.Type()
	k := kindOf(x.X.Type())
	switch x.Op {
	case token.EQL, token.NEQ:
		var r string
		if k == kSlice {
			// only comparison with nil is legal
			if c, ok := x.Y.(*ssa.Const); ok && c.Value == nil {
				r = eq(app("sptr", a.S), "0")
			} else {
				r = eq(app("sptr", b.S), "0")
			}
		} else if k == kFunc {
			e.vc.declSort("(declare-const fn_nil Fn)")
			r = eq(a.S, b.S)
		} else {
			r = eq(a.S, b.S)
		}
		if x.Op == token.NEQ {
			r = not(r)
		}
		return Val{S: r, T: t}
	}
	switch k {
	case kInt:
		switch x.Op {
		case token.ADD:
			return Val{S: e.vc.define("add", "Int", wrapInt(app("+", a.S, b.S), t)), T: t}
		case token.SUB:
			return Val{S: e.vc.define("sub", "Int", wrapInt(app("-", a.S, b.S), t)), T: t}
		case token.MUL:
			return Val{S: e.vc.define("mul", "Int", wrapInt(app("*", a.S, b.S), t)), T: t}
		case token.QUO:
			e.addObl(st, "panic.divzero", fr.lbl(x.Y.Name()), not(eq(b.S, "0")), x.Pos())
			return Val{S: e.vc.define("quo", "Int", wrapInt(app("tdiv", a.S, b.S), t)), T: t}
		case token.REM:
			e.addObl(st, "panic.divzero", fr.lbl(x.Y.Name()), not(eq(b.S, "0")), x.Pos())
			return Val{S: e.vc.define("rem", "Int", app("trem", a.S, b.S)), T: t}
		case token.LSS:
			return Val{S: app("<", a.S, b.S), T: t}
		case token.LEQ:
			return Val{S: app("<=", a.S, b.S), T: t}
		case token.GTR:
			return Val{S: app(">", a.S, b.S), T: t}
		case token.GEQ:
			return Val{S: app(">=", a.S, b.S), T: t}
		case token.SHL, token.SHR:
			if c, ok := x.Y.(*ssa.Const); ok && c.Value != nil {
				n, _ := constant.Int64Val(constant.ToInt(c.Value))
				if n >= 0 && n < 256 {
					p := new(big.Int).Lsh(big.NewInt(1), uint(n)).String()
					if x.Op == token.SHL {
						return Val{S: e.vc.define("shl", "Int", wrapInt(app("*", a.S, p), t)), T: t}
					}
					return Val{S: e.vc.define("shr", "Int", app("div", a.S, p)), T: t}
				}
			}
			e.vc.declFun("pow2", []string{"Int"}, "Int")
			e.note("approx", "shift by non-constant modelled with uninterpreted pow2")
			if x.Op == token.SHL {
				return Val{S: e.vc.define("shl", "Int", wrapInt(app("*", a.S, app("pow2", b.S)), t)), T: t}
			}
			r := e.vc.fresh("shr", "Int")
			e.vc.assume(inRange(r, t))
			return Val{S: r, T: t}
		case token.AND, token.OR, token.XOR, token.AND_NOT:
			fn := map[token.Token]string{token.AND: "bit_and", token.OR: "bit_or", token.XOR: "bit_xor", token.AND_NOT: "bit_andnot"}[x.Op]
			e.vc.declFun(fn, []string{"Int", "Int"}, "Int")
			r := e.vc.define(fn, "Int", app(fn, a.S, b.S))
			e.vc.assume(inRange(r, t))
			if x.Op == token.AND && isUnsigned(t) {
				e.vc.assume(and(app("<=", r, a.S), app("<=", r, b.S)))
			}
			e.note("approx", "bitwise "+x.Op.String()+" uninterpreted")
			return Val{S: r, T: t}
		}
	case kBool:
		switch x.Op {
		case token.LAND, token.AND:
			return Val{S: and(a.S, b.S), T: t}
		case token.LOR, token.OR:
			return Val{S: or(a.S, b.S), T: t}
		}
	case kStr:
		switch x.Op {
		case token.ADD:
			r := e.vc.define("cat", "Str", app("str_cat", a.S, b.S))
			e.vc.assume(eq(app("str_len", r), app("+", app("str_len", a.S), app("str_len", b.S))))
			return Val{S: r, T: t}
		case token.LSS:
			return Val{S: app("str_lt", a.S, b.S), T: t}
		case token.GTR:
			return Val{S: app("str_lt", b.S, a.S), T: t}
		case token.LEQ:
			return Val{S: not(app("str_lt", b.S, a.S)), T: t}
		case token.GEQ:
			return Val{S: not(app("str_lt", a.S, b.S)), T: t}
		}
	case kReal:
		ops := map[token.Token]string{token.ADD: "+", token.SUB: "-", token.MUL: "*", token.QUO: "/", token.LSS: "<", token.LEQ: "<=", token.GTR: ">", token.GEQ: ">="}
		if op, ok := ops[x.Op]; ok {
			e.note("approx", "floating point modelled as real arithmetic")
			return Val{S: app(op, a.S, b.S), T: t}
		}
	}
	e.unsupported(fmt.Sprintf("binop %s on %s", x.Op, x.X.Type()))
	return Val{S: e.vc.fresh("binop", e.vc.sortOf(t)), T: t}
}

func (fr *Frame) unop(x *ssa.UnOp, st *State) Val {
	e := fr.e
	v := fr.get(x.X)
	t := x.Type()
	switch x.Op {
	case token.MUL:
		a := fr.addrOf(v)
		if a.kind == aObj && len(a.path) == 0 && v.Addr == nil {
			e.addObl(st, "panic.nil", fr.lbl(fr.srcOf(x, "*"+x.X.Name())), not(eq(a.ref, "0")), x.Pos())
		}
		if a.kind == aElem && a.idx == "" {
			// whole array load from array cell
			hn, hs := e.vc.arrHeapName(a.rootT)
			return Val{S: app("select", e.heap(st, hn, hs), a.ref), T: t}
		}
		return fr.load(st, a)
	case token.NOT:
		return Val{S: not(v.S), T: t}
	case token.SUB:
		if kindOf(t) == kReal {
			return Val{S: app("-", v.S), T: t}
		}
		return Val{S: e.vc.define("neg", "Int", wrapInt(app("-", v.S), t)), T: t}
	case token.XOR:
		if isUnsigned(t) {
			_, hi, _ := intRange(t)
			return Val{S: app("-", hi.String(), v.S), T: t}
		}
		return Val{S: app("-", app("-", v.S), "1"), T: t}
	}
	e.unsupported("unop " + x.Op.String())
	return Val{S: e.vc.fresh("unop", e.vc.sortOf(t)), T: t}
}

func (fr *Frame) changeType(v Val, t types.Type) Val {
	e := fr.e
	from, to := e.vc.sortOf(v.T), e.vc.sortOf(t)
	if from == to {
		v.T = t
		return v
	}
	if kindOf(v.T) == kStruct && kindOf(t) == kStruct {
		fs, ts := e.vc.structInfo(v.T), e.vc.structInfo(t)
		var args []string
		for _, sel := range fs.fields {
			args = append(args, app(sel, v.S))
		}
		if len(args) == 0 {
			return Val{S: "mk_" + ts.name, T: t}
		}
		return Val{S: app("mk_"+ts.name, args...), T: t}
	}
	e.unsupported(fmt.Sprintf("changetype %s -> %s", v.T, t))
	return Val{S: e.vc.fresh("ct", to), T: t}
}

func (fr *Frame) convert(x *ssa.Convert, st *State) Val {
	e := fr.e
	v := fr.get(x.X)
	t := x.Type()
	fk, tk := kindOf(x.X.Type()), kindOf(t)
	switch {
	case fk == kInt && tk == kInt:
		return Val{S: e.vc.define("conv", "Int", wrapInt(v.S, t)), T: t}
	case fk == kStr && tk == kSlice:
		return e.strToBytes(st, v, t)
	case fk == kSlice && tk == kStr:
		return e.bytesToStr(st, v, t)
	case fk == kInt && tk == kReal:
		return Val{S: app("to_real", v.S), T: t}
	case fk == kReal && tk == kReal:
		return Val{S: v.S, T: t}
	case fk == kReal && tk == kInt:
		e.note("approx", "float->int conversion modelled as truncation of a real")
		r := e.vc.fresh("f2i", "Int")
		e.vc.assume(inRange(r, t))
		return Val{S: r, T: t}
	case fk == kInt && tk == kStr:
		e.vc.declFun("str_of_rune", []string{"Int"}, "Str")
		return Val{S: app("str_of_rune", v.S), T: t}
	case fk == tk:
		return fr.changeType(v, t)
	}
	e.unsupported(fmt.Sprintf("convert %s -> %s", x.X.Type(), t))
	return Val{S: e.vc.fresh("conv", e.vc.sortOf(t)), T: t}
}

// bytes <-> string: strings are abstract; bytes of a string are given by UF str_byte(s,i).
func (e *Engine) strToBytes(st *State, v Val, t types.Type) Val {
	sl := types.Unalias(t).Underlying().(*types.Slice)
	hn, hs := e.vc.arrHeapName(sl.Elem())
	ref := e.alloc(st)
	e.vc.declFun("str_bytes", []string{"Str"}, "(Array Int Int)")
	e.setHeap(st, hn, hs, app("store", e.heap(st, hn, hs), ref, app("str_bytes", v.S)))
	return Val{S: app("mk_slice", ref, "0", app("str_len", v.S)), T: t}
}

func (e *Engine) bytesToStr(st *State, v Val, t types.Type) Val {
	sl := types.Unalias(v.T).Underlying().(*types.Slice)
	hn, hs := e.vc.arrHeapName(sl.Elem())
	e.vc.declFun("bytes_str", []string{"(Array Int Int)", "Int", "Int"}, "Str")
	r := e.vc.define("bstr", "Str", app("bytes_str", app("select", e.heap(st, hn, hs), app("sptr", v.S)), app("soff", v.S), app("slen", v.S)))
	e.vc.assume(eq(app("str_len", r), app("slen", v.S)))
	return Val{S: r, T: t}
}

var typeTags = map[string]int{}

func (e *Engine) typeTag(t types.Type) (tag int, key string) {
	key = typeKey(t)
	if n, ok := typeTags[key]; ok {
		return n, key
	}
	n := len(typeTags) + 1
	typeTags[key] = n
	return n, key
}

func (fr *Frame) makeIface(v Val, t types.Type) Val {
	e := fr.e
	if kindOf(v.T) == kIface {
		v.T = t
		return v
	}
	tag, key := e.typeTag(v.T)
	srt := e.vc.sortOf(v.T)
	if srt == "GoTuple" || v.S == "" || v.S == "addr" {
		// closures / interior pointers boxed: opaque
		c := e.vc.fresh("box", "Iface")
		e.vc.assume(eq(app("typeof", c), fmt.Sprint(tag)))
		return Val{S: c, T: t}
	}
	m := mangle(key)
	e.vc.declFun("box_"+m, []string{srt}, "Iface")
	e.vc.declFun("unbox_"+m, []string{"Iface"}, srt)
	b := e.vc.define("box", "Iface", app("box_"+m, v.S))
	e.vc.assume(and(eq(app("typeof", b), fmt.Sprint(tag)), eq(app("unbox_"+m, b), v.S)))
	if strings.HasSuffix(namedPath(v.T), "cosmos-sdk/types.Context") {
		// an sdk.Context passed as context.Context unwraps to itself (sdk.UnwrapSDKContext)
		e.vc.declFun("unwrap_ctx", []string{"Iface"}, srt)
		e.vc.assume(eq(app("unwrap_ctx", b), v.S))
	}
	return Val{S: b, T: t}
}

func (fr *Frame) typeAssert(x *ssa.TypeAssert, st *State) Val {
	e := fr.e
	v := fr.get(x.X)
	at := x.AssertedType
	var okT, val string
	if kindOf(at) == kIface && !isNamedConcrete(at) {
		// interface-to-interface: holds iff dynamic type implements it (uninterpreted in typeof), nil fails
		fn := "implements_" + mangle(typeKey(at))
		e.vc.declFun(fn, []string{"Int"}, "Bool")
		okT = and(not(eq(v.S, "iface_nil")), app(fn, app("typeof", v.S)))
		if it, ok := at.Underlying().(*types.Interface); ok && it.NumMethods() == 0 {
			okT = not(eq(v.S, "iface_nil"))
		}
		val = v.S
	} else {
		tag, key := e.typeTag(at)
		m := mangle(key)
		srt := e.vc.sortOf(at)
		e.vc.declFun("box_"+m, []string{srt}, "Iface")
		e.vc.declFun("unbox_"+m, []string{"Iface"}, srt)
		okT = eq(app("typeof", v.S), fmt.Sprint(tag))
		val = e.vc.define("unbox", srt, app("unbox_"+m, v.S))
		// boxing is injective on its image
		e.assumeIn(st, implies(okT, eq(app("box_"+m, val), v.S)))
		e.assumeIn(st, e.typeInv(val, at))
	}
	if x.CommaOk {
		okc := e.vc.define("taok", "Bool", okT)
		return Val{T: x.Type(), Tup: []Val{{S: ite(okc, val, e.zero(at)), T: at}, {S: okc, T: types.Typ[types.Bool]}}}
	}
	e.addObl(st, "panic.typeassert", fr.lbl(shortLabel(types.TypeString(at, func(p *types.Package) string { return p.Name() }))), okT, x.Pos())
	return Val{S: val, T: at}
}

func isNamedConcrete(t types.Type) bool {
	_, isI := types.Unalias(t).Underlying().(*types.Interface)
	return !isI
}

func (fr *Frame) indexVal(x *ssa.Index, st *State) Val {
	e := fr.e
	v, i := fr.get(x.X), fr.get(x.Index)
	switch kindOf(x.X.Type()) {
	case kArray:
		at := types.Unalias(x.X.Type()).Underlying().(*types.Array)
		e.addObl(st, "panic.index", fr.lbl(x.X.Name()), and(app("<=", "0", i.S), app("<", i.S, fmt.Sprint(at.Len()))), x.Pos())
		return Val{S: app("select", v.S, i.S), T: x.Type()}
	case kStr:
		e.addObl(st, "panic.index", fr.lbl(x.X.Name()), and(app("<=", "0", i.S), app("<", i.S, app("str_len", v.S))), x.Pos())
		e.vc.declFun("str_bytes", []string{"Str"}, "(Array Int Int)")
		r := e.vc.define("sb", "Int", app("select", app("str_bytes", v.S), i.S))
		e.vc.assume(inRange(r, x.Type()))
		return Val{S: r, T: x.Type()}
	}
	e.unsupported("index on " + x.X.Type().String())
	return Val{S: e.vc.fresh("idx", e.vc.sortOf(x.Type())), T: x.Type()}
}

func (fr *Frame) indexAddr(x *ssa.IndexAddr, st *State) Val {
	e := fr.e
	base, i := fr.get(x.X), fr.get(x.Index)
	switch bt := types.Unalias(x.X.Type()).Underlying().(type) {
	case *types.Slice:
		e.addObl(st, "panic.index", fr.lbl(fr.idxLabel(x)), and(app("<=", "0", i.S), app("<", i.S, app("slen", base.S))), x.Pos())
		a := &addr{kind: aElem, rootT: bt.Elem(), ref: app("sptr", base.S), idx: e.vc.define("ix", "Int", app("idx", app("soff", base.S), i.S)), T: bt.Elem()}
		return Val{S: "addr", T: x.Type(), Addr: a}
	case *types.Pointer:
		at, ok := types.Unalias(bt.Elem()).Underlying().(*types.Array)
		if !ok {
			break
		}
		e.addObl(st, "panic.index", fr.lbl(fr.idxLabel(x)), and(app("<=", "0", i.S), app("<", i.S, fmt.Sprint(at.Len()))), x.Pos())
		ba := fr.addrOf(base)
		if ba.kind == aElem && ba.idx == "" {
			return Val{S: "addr", T: x.Type(), Addr: &addr{kind: aElem, rootT: at.Elem(), ref: ba.ref, idx: i.S, T: at.Elem()}}
		}
		// array inside an object
		na := *ba
		na.path = append(append([]pathStep{}, ba.path...), pathStep{field: -1, idx: i.S, ct: at})
		na.T = at.Elem()
		return Val{S: "addr", T: x.Type(), Addr: &na}
	}
	e.unsupported("indexaddr on " + x.X.Type().String())
	return Val{S: "addr", T: x.Type()}
}

// idxLabel gives a stable label for an index expression: <container var>[<index var>] from names where possible.
func (fr *Frame) idxLabel(x *ssa.IndexAddr) string {
	return shortLabel(fr.valName(x.X) + "[" + fr.valName(x.Index) + "]")
}

// valName: a source-ish name for an SSA value (variable name if known from the env, else kind)
func (fr *Frame) valName(v ssa.Value) string {
	switch y := v.(type) {
	case *ssa.Parameter:
		return y.Name()
	case *ssa.Const:
		return y.Value.String()
	case *ssa.Phi:
		if y.Comment != "" {
			return y.Comment
		}
	case *ssa.Alloc:
		if y.Comment != "" {
			return y.Comment
		}
	case *ssa.UnOp:
		if y.Op == token.MUL {
			return fr.valName(y.X)
		}
	case *ssa.FieldAddr:
		if st, ok := types.Unalias(y.X.Type().Underlying().(*types.Pointer).Elem()).Underlying().(*types.Struct); ok {
			return fr.valName(y.X) + "." + st.Field(y.Field).Name()
		}
	case *ssa.Field:
		if st, ok := types.Unalias(y.X.Type()).Underlying().(*types.Struct); ok {
			return fr.valName(y.X) + "." + st.Field(y.Field).Name()
		}
	case *ssa.FreeVar:
		return y.Name()
	case *ssa.BinOp:
		return fr.valName(y.X) + y.Op.String() + fr.valName(y.Y)
	case *ssa.Call:
		if c := y.Call.StaticCallee(); c != nil {
			return c.Name() + "()"
		}
		if y.Call.IsInvoke() {
			return y.Call.Method.Name() + "()"
		}
		if b, ok := y.Call.Value.(*ssa.Builtin); ok {
			var as []string
			for _, a := range y.Call.Args {
				as = append(as, fr.valName(a))
			}
			return b.Name() + "(" + strings.Join(as, ",") + ")"
		}
	case *ssa.Extract:
		return fr.valName(y.Tuple) + "#" + fmt.Sprint(y.Index)
	case *ssa.Convert:
		return fr.valName(y.X)
	case *ssa.ChangeType:
		return fr.valName(y.X)
	case *ssa.Slice:
		return fr.valName(y.X) + "[:]"
	case *ssa.IndexAddr:
		return fr.valName(y.X) + "[" + fr.valName(y.Index) + "]"
	case *ssa.Lookup:
		return fr.valName(y.X) + "[" + fr.valName(y.Index) + "]"
	}
	// look for a debug name (deterministically: smallest name over all blocks)
	best := ""
	for _, env := range fr.envAt {
		for n, sv := range env {
			if sv == v && !strings.HasPrefix(n, "&") && (best == "" || n < best) {
				best = n
			}
		}
	}
	if best != "" {
		return best
	}
	return "_"
}

func (fr *Frame) sliceOp(x *ssa.Slice, st *State) Val {
	e := fr.e
	base := fr.get(x.X)
	var lo, hi string = "0", ""
	if x.Low != nil {
		lo = fr.get(x.Low).S
	}
	if x.High != nil {
		hi = fr.get(x.High).S
	}
	lab := fr.lbl(shortLabel(fr.valName(x.X) + "[" + fr.optName(x.Low) + ":" + fr.optName(x.High) + "]"))
	switch bt := types.Unalias(x.X.Type()).Underlying().(type) {
	case *types.Slice:
		if hi == "" {
			hi = app("slen", base.S)
		}
		// Go permits hi up to cap; capacity is not tracked, so hi <= len is required (sound, may be stronger than Go)
		e.addObl(st, "panic.slice", lab, and(app("<=", "0", lo), app("<=", lo, hi), app("<=", hi, app("slen", base.S))), x.Pos())
		return Val{S: e.vc.define("sl", "Slice", app("mk_slice", app("sptr", base.S), app("+", app("soff", base.S), lo), app("-", hi, lo))), T: x.Type()}
	case *types.Basic: // string
		if hi == "" {
			hi = app("str_len", base.S)
		}
		e.addObl(st, "panic.slice", lab, and(app("<=", "0", lo), app("<=", lo, hi), app("<=", hi, app("str_len", base.S))), x.Pos())
		e.vc.declFun("str_sub", []string{"Str", "Int", "Int"}, "Str")
		r := e.vc.define("sub", "Str", app("str_sub", base.S, lo, hi))
		e.vc.assume(implies(and(app("<=", "0", lo), app("<=", lo, hi)), eq(app("str_len", r), app("-", hi, lo))))
		return Val{S: r, T: x.Type()}
	case *types.Pointer:
		at, ok := types.Unalias(bt.Elem()).Underlying().(*types.Array)
		if !ok {
			break
		}
		if hi == "" {
			hi = fmt.Sprint(at.Len())
		}
		e.addObl(st, "panic.slice", lab, and(app("<=", "0", lo), app("<=", lo, hi), app("<=", hi, fmt.Sprint(at.Len()))), x.Pos())
		ba := fr.addrOf(base)
		if ba.kind == aElem && ba.idx == "" {
			return Val{S: e.vc.define("sl", "Slice", app("mk_slice", ba.ref, lo, app("-", hi, lo))), T: x.Type()}
		}
		// slice of an array embedded in an object: copy out (aliasing lost)
		e.note("approx", "slice of embedded array copies the array (aliasing with the object lost)")
		arr := fr.load(st, ba)
		hn, hs := e.vc.arrHeapName(at.Elem())
		ref := e.alloc(st)
		e.setHeap(st, hn, hs, app("store", e.heap(st, hn, hs), ref, arr.S))
		return Val{S: e.vc.define("sl", "Slice", app("mk_slice", ref, lo, app("-", hi, lo))), T: x.Type()}
	}
	e.unsupported("slice of " + x.X.Type().String())
	return Val{S: e.vc.fresh("slice", "Slice"), T: x.Type()}
}

func (fr *Frame) optName(v ssa.Value) string {
	if v == nil {
		return ""
	}
	return fr.valName(v)
}

func (fr *Frame) lookup(x *ssa.Lookup, st *State) Val {
	e := fr.e
	m, k := fr.get(x.X), fr.get(x.Index)
	if kindOf(x.X.Type()) == kStr {
		e.addObl(st, "panic.index", fr.lbl(fr.valName(x.X)), and(app("<=", "0", k.S), app("<", k.S, app("str_len", m.S))), x.Pos())
		e.vc.declFun("str_bytes", []string{"Str"}, "(Array Int Int)")
		return Val{S: app("select", app("str_bytes", m.S), k.S), T: x.Type()}
	}
	mt := types.Unalias(x.X.Type()).Underlying().(*types.Map)
	vn, vs, dn, ds := e.vc.mapHeapName(mt.Key(), mt.Elem())
	dom := app("select", app("select", e.heap(st, dn, ds), m.S), k.S)
	val := app("select", app("select", e.heap(st, vn, vs), m.S), k.S)
	v := e.vc.define("mv", e.vc.sortOf(mt.Elem()), ite(dom, val, e.zero(mt.Elem())))
	e.assumeIn(st, e.typeInv(v, mt.Elem()))
	if x.CommaOk {
		return Val{T: x.Type(), Tup: []Val{{S: v, T: mt.Elem()}, {S: e.vc.define("mok", "Bool", dom), T: types.Typ[types.Bool]}}}
	}
	return Val{S: v, T: mt.Elem()}
}

func (fr *Frame) mapUpdate(x *ssa.MapUpdate, st *State) {
	e := fr.e
	m, k, v := fr.get(x.Map), fr.get(x.Key), fr.get(x.Value)
	mt := types.Unalias(x.Map.Type()).Underlying().(*types.Map)
	vn, vs, dn, ds := e.vc.mapHeapName(mt.Key(), mt.Elem())
	e.addObl(st, "panic.nilmap", fr.lbl(fr.valName(x.Map)), not(eq(m.S, "0")), x.Pos())
	hv, hd := e.heap(st, vn, vs), e.heap(st, dn, ds)
	e.setHeap(st, vn, vs, app("store", hv, m.S, app("store", app("select", hv, m.S), k.S, v.S)))
	e.setHeap(st, dn, ds, app("store", hd, m.S, app("store", app("select", hd, m.S), k.S, "true")))
}

func (fr *Frame) doRange(x *ssa.Range, st *State) {
	e := fr.e
	if kindOf(x.X.Type()) != kMap {
		e.unsupported("range over string")
		return
	}
	m := fr.get(x.X)
	mt := types.Unalias(x.X.Type()).Underlying().(*types.Map)
	e.iterN++
	name := fmt.Sprintf("seen_%d", e.iterN)
	srt := fmt.Sprintf("(Array %s Bool)", e.vc.sortOf(mt.Key()))
	e.setHeap(st, name, srt, fmt.Sprintf("((as const %s) false)", srt))
	it := &iterVal{m: m, seen: name, id: e.iterN}
	fr.iters[x] = it
	fr.regs[x] = Val{T: x.Type(), Iter: it}
}

func (fr *Frame) doNext(x *ssa.Next, st *State) Val {
	e := fr.e
	if fr.nextOverride != nil {
		ov := fr.nextOverride
		return Val{T: x.Type(), Tup: []Val{ov[0], ov[1], ov[2]}}
	}
	it := fr.iters[x.Iter]
	if it == nil {
		e.unsupported("next on unknown iterator")
		return Val{}
	}
	mt := types.Unalias(it.m.T).Underlying().(*types.Map)
	vn, vs, dn, ds := e.vc.mapHeapName(mt.Key(), mt.Elem())
	ksort, vsort := e.vc.sortOf(mt.Key()), e.vc.sortOf(mt.Elem())
	seenSort := e.heapSorts[it.seen]
	seen := e.heap(st, it.seen, seenSort)
	dom := app("select", e.heap(st, dn, ds), it.m.S)
	vals := app("select", e.heap(st, vn, vs), it.m.S)
	ok := e.vc.fresh("next_ok", "Bool")
	k := e.vc.fresh("next_k", ksort)
	v := e.vc.define("next_v", vsort, app("select", vals, k))
	e.assumeIn(st, implies(ok, and(app("select", dom, k), not(app("select", seen, k)))))
	e.assumeIn(st, implies(not(ok), fmt.Sprintf("(forall ((j %s)) (! (=> (select %s j) (select %s j)) :pattern ((select %s j))))", ksort, dom, seen, seen)))
	e.assumeIn(st, and(e.typeInv(k, mt.Key()), e.typeInv(v, mt.Elem())))
	e.setHeap(st, it.seen, seenSort, ite(ok, app("store", seen, k, "true"), seen))
	return Val{T: x.Type(), Tup: []Val{{S: ok, T: types.Typ[types.Bool]}, {S: k, T: mt.Key()}, {S: v, T: mt.Elem()}}}
}

// nameOrd: the ordinal used in obligation names (the contract's numbering, so that names survive added loops).
func (li *loopInfo) nameOrd() int {
	if li.cordSet {
		return li.cord
	}
	return li.ordinal
}
