package main

import (
	"fmt"
	"go/ast"
	"go/token"
	"go/types"
	"os"
	"sort"
	"strings"

	"golang.org/x/tools/go/packages"
	"golang.org/x/tools/go/ssa"
	"golang.org/x/tools/go/ssa/ssautil"
)

// repoDir is the tree under verification: /repo, or a scratch worktree of it for the seeded-change corpus (GOVC_REPO)
var repoDir = envOr("GOVC_REPO", "/repo")

func envOr(k, d string) string {
	if v := os.Getenv(k); v != "" {
		return v
	}
	return d
}
const modPath = "github.com/tellor-io/layer"

// Prog is the loaded program: typed syntax + SSA for the in-scope packages of
// /repo's current working tree, built with -tags verif.
type Prog struct {
	Fset   *token.FileSet
	Pkgs   []*packages.Package
	SSA    *ssa.Program
	ByPath map[string]*packages.Package
	// all functions (incl. methods, closures, generic instances) of in-scope packages
	Funcs map[string]*ssa.Function // key: funcKey
	// contracts parsed from zz_contracts_verif.go files
	Contracts map[string]*Contract // key: funcKey
	srcCache  map[string][]byte
	Macros    map[string]*Macro
	AutoEntries []string // functions that received the default lock entry contract
	Guarded   map[string]bool // "<pkg rel path>.<Type>.<field>": field may only be touched with the lock held
	globConst map[*ssa.Global]*ssa.Const
	globInit  bool
	idxFns    map[string]*ssa.Function
}

// in-scope package patterns (relative to /repo)
var scopePatterns = []string{
	"./lib", "./app", "./types", "./utils",
	"./x/oracle/...", "./x/reporter/...", "./x/dispute/...", "./x/bridge/...", "./x/mint/...", "./x/registry/...",
	"./daemons/server/types/pricefeed", "./daemons/pricefeed/types", "./daemons/server/median", "./daemons/server",
}

func loadProg(patterns []string) (*Prog, error) {
	if len(patterns) == 0 {
		patterns = scopePatterns
	}
	fset := token.NewFileSet()
	cfg := &packages.Config{
		Mode: packages.NeedName | packages.NeedFiles | packages.NeedCompiledGoFiles | packages.NeedSyntax |
			packages.NeedTypes | packages.NeedTypesInfo | packages.NeedImports | packages.NeedDeps | packages.NeedTypesSizes | packages.NeedModule,
		Dir:        repoDir,
		Fset:       fset,
		BuildFlags: []string{"-tags=verif"},
		Env:        append(os.Environ(), "GOFLAGS=-mod=mod", "GOPROXY=off", "GOSUMDB=off", "GOTOOLCHAIN=local"),
		Tests:      false,
	}
	pkgs, err := packages.Load(cfg, patterns...)
	if err != nil {
		return nil, err
	}
	var errs []string
	for _, p := range pkgs {
		for _, e := range p.Errors {
			errs = append(errs, e.Error())
		}
	}
	if len(errs) > 0 {
		return nil, fmt.Errorf("package errors (tree does not compile):\n%s", strings.Join(errs, "\n"))
	}
	prog, spkgs := ssautil.Packages(pkgs, ssa.InstantiateGenerics|ssa.GlobalDebug)
	p := &Prog{Fset: fset, Pkgs: pkgs, SSA: prog, ByPath: map[string]*packages.Package{}, Funcs: map[string]*ssa.Function{}, Contracts: map[string]*Contract{}, srcCache: map[string][]byte{}, Macros: map[string]*Macro{}, Guarded: map[string]bool{}}
	for i, sp := range spkgs {
		if sp == nil {
			continue
		}
		if !strings.HasPrefix(pkgs[i].PkgPath, modPath) {
			continue
		}
		sp.Build()
		p.ByPath[pkgs[i].PkgPath] = pkgs[i]
	}
	// also build any repo-module dependency packages that were created (so inlining across packages works)
	for _, sp := range prog.AllPackages() {
		if strings.HasPrefix(sp.Pkg.Path(), modPath) {
			sp.Build()
		}
	}
	for fn := range ssautil.AllFunctions(prog) {
		if fn.Pkg == nil && fn.Origin() == nil && fn.Parent() == nil {
			continue
		}
		pk := fnPkgPath(fn)
		if !strings.HasPrefix(pk, modPath) {
			continue
		}
		if fn.Synthetic != "" && fn.Origin() == nil {
			continue // wrappers, bound methods, init
		}
		p.Funcs[funcKey(fn)] = fn
	}
	return p, nil
}

func fnPkgPath(fn *ssa.Function) string {
	if fn.Pkg != nil {
		return fn.Pkg.Pkg.Path()
	}
	if o := fn.Origin(); o != nil && o.Pkg != nil {
		return o.Pkg.Pkg.Path()
	}
	if fn.Parent() != nil {
		return fnPkgPath(fn.Parent())
	}
	if fn.Object() != nil && fn.Object().Pkg() != nil {
		return fn.Object().Pkg().Path()
	}
	return ""
}

// relPkg gives the package path relative to the module ("x/oracle/keeper").
func relPkg(path string) string {
	r := strings.TrimPrefix(path, modPath)
	r = strings.TrimPrefix(r, "/")
	if r == "" {
		r = "."
	}
	return r
}

// funcKey: "<relpkg>.<Recv>.<Name>" or "<relpkg>.<Name>"; generic instances get "[T]" suffix;
// closures "<parent>$N".
func funcKey(fn *ssa.Function) string {
	if fn.Parent() != nil {
		// closure: name is like "Median$1"
		name := fn.Name()
		if i := strings.LastIndex(name, "$"); i >= 0 {
			return funcKey(fn.Parent()) + name[i:]
		}
		return funcKey(fn.Parent()) + "$" + name
	}
	pk := relPkg(fnPkgPath(fn))
	name := fn.Name()
	if o := fn.Origin(); o != nil {
		// generic instance: name like "Median[uint64]"
		name = o.Name()
		targs := fn.TypeArgs()
		var ss []string
		for _, t := range targs {
			ss = append(ss, types.TypeString(t, func(p *types.Package) string { return p.Name() }))
		}
		name += "[" + strings.Join(ss, ",") + "]"
	}
	if recv := fn.Signature.Recv(); recv != nil {
		t := recv.Type()
		if pt, ok := t.(*types.Pointer); ok {
			t = pt.Elem()
		}
		rn := types.TypeString(t, func(p *types.Package) string { return "" })
		if i := strings.Index(rn, "["); i >= 0 {
			rn = rn[:i]
		}
		return pk + "." + rn + "." + name
	}
	return pk + "." + name
}

func (p *Prog) src(file string) []byte {
	if b, ok := p.srcCache[file]; ok {
		return b
	}
	b, _ := os.ReadFile(file)
	p.srcCache[file] = b
	return b
}

// srcText returns the source text between two positions (single line, whitespace-normalised).
func (p *Prog) srcText(from, to token.Pos) string {
	if !from.IsValid() || !to.IsValid() {
		return ""
	}
	pf, pt := p.Fset.Position(from), p.Fset.Position(to)
	b := p.src(pf.Filename)
	if pf.Offset < 0 || pt.Offset > len(b) || pf.Offset > pt.Offset {
		return ""
	}
	return strings.Join(strings.Fields(string(b[pf.Offset:pt.Offset])), " ")
}

func (p *Prog) nodeText(n ast.Node) string {
	if n == nil {
		return ""
	}
	return p.srcText(n.Pos(), n.End())
}

func (p *Prog) posStr(pos token.Pos) string {
	if !pos.IsValid() {
		return "?"
	}
	ps := p.Fset.Position(pos)
	return fmt.Sprintf("%s:%d", strings.TrimPrefix(ps.Filename, repoDir+"/"), ps.Line)
}

func (p *Prog) sortedFuncKeys() []string {
	var ks []string
	for k := range p.Funcs {
		ks = append(ks, k)
	}
	sort.Strings(ks)
	return ks
}

// globalConst: package-level variables that are initialised with a constant and never assigned elsewhere
// behave as constants (e.g. types.BondDenom = "loya").
func (p *Prog) globalConst(g *ssa.Global) *ssa.Const {
	if !p.globInit {
		p.globInit = true
		p.globConst = map[*ssa.Global]*ssa.Const{}
		bad := map[*ssa.Global]bool{}
		for fn := range ssautil.AllFunctions(p.SSA) {
			for _, b := range fn.Blocks {
				for _, in := range b.Instrs {
					st, ok := in.(*ssa.Store)
					if !ok {
						// address escaping through any other use is not tracked; only direct stores matter for string/int globals
						continue
					}
					gl, ok := st.Addr.(*ssa.Global)
					if !ok {
						continue
					}
					c, isC := st.Val.(*ssa.Const)
					if fn.Name() == "init" && isC && p.globConst[gl] == nil && !bad[gl] {
						p.globConst[gl] = c
					} else {
						bad[gl] = true
						delete(p.globConst, gl)
					}
				}
			}
		}
		// globals whose address is taken by anything other than a load are not constants
		for fn := range ssautil.AllFunctions(p.SSA) {
			for _, b := range fn.Blocks {
				for _, in := range b.Instrs {
					if _, ok := in.(*ssa.Store); ok {
						continue
					}
					if u, ok := in.(*ssa.UnOp); ok && u.Op == token.MUL {
						continue
					}
					for _, op := range in.Operands(nil) {
						if gl, ok := (*op).(*ssa.Global); ok {
							delete(p.globConst, gl)
						}
					}
				}
			}
		}
	}
	return p.globConst[g]
}

// lookupType resolves "[*]import/path.Name" to a type of the loaded program.
func (p *Prog) lookupType(path string) types.Type {
	ptr := strings.HasPrefix(path, "*")
	path = strings.TrimPrefix(path, "*")
	i := strings.LastIndex(path, ".")
	if i < 0 {
		return nil
	}
	pk, name := path[:i], path[i+1:]
	var found types.Type
	var visit func(pkg *packages.Package, seen map[string]bool)
	visit = func(pkg *packages.Package, seen map[string]bool) {
		if found != nil || seen[pkg.PkgPath] {
			return
		}
		seen[pkg.PkgPath] = true
		if (pkg.PkgPath == pk || relPkg(pkg.PkgPath) == pk) && pkg.Types != nil {
			if o := pkg.Types.Scope().Lookup(name); o != nil {
				found = o.Type()
				return
			}
		}
		for _, imp := range pkg.Imports {
			visit(imp, seen)
		}
	}
	seen := map[string]bool{}
	for _, pkg := range p.Pkgs {
		visit(pkg, seen)
	}
	if found != nil && ptr {
		return types.NewPointer(found)
	}
	return found
}
