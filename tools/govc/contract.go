package main

import (
	"fmt"
	"go/types"
	"os"
	"sort"
	"path/filepath"
	"regexp"
	"strconv"
	"strings"
	"unicode"

	"golang.org/x/tools/go/ssa"
)

// ---------- contract files ----------

type Clause struct {
	label string
	expr  Expr
	src   string
	line  int
}

type Contract struct {
	Key         string
	RecvName    string
	ParamNames  []string // positional, including receiver at index 0 for methods
	ResultNames []string
	Requires    []Clause
	Ensures     []Clause
	Modifies    []string
	LoopInv     map[int][]Clause
	IterInv     map[int][]Clause
	LoopFinger  map[int]string
	Trusted     bool
	NoPanic     bool
	File        string
	Line        int
	Lemma       bool
	Assumes     []string
	Uses        map[string]bool // engine lemmas switched on for this function ("uses sum_congruence")
}

var reFuncHdr = regexp.MustCompile(`^func\s+(?:\(\s*(?:(\w+)\s+)?\*?([\w.\[\],]+)\s*\)\s*\.\s*)?([\w$]+(?:\[[\w.,\s]*\])?)\s*\(([^)]*)\)\s*(?:\(([^)]*)\)|(\w+))?\s*$`)

// loadContracts scans every zz_contracts_verif.go in the loaded packages.
func (p *Prog) loadContracts() []string {
	var diags []string
	for _, pkg := range p.Pkgs {
		if !strings.HasPrefix(pkg.PkgPath, modPath) {
			continue
		}
		for _, f := range pkg.CompiledGoFiles {
			base := filepath.Base(f)
			if !strings.HasPrefix(base, "zz_") || !strings.HasSuffix(base, "_verif.go") {
				continue
			}
			b, err := os.ReadFile(f)
			if err != nil {
				continue
			}
			diags = append(diags, p.parseContractFile(relPkg(pkg.PkgPath), f, string(b))...)
		}
	}
	p.autoLockEntries()
	return diags
}

// autoLockEntries: in a package that declares guarded fields, every exported method of a struct type that owns a
// mutex is an entry point other goroutines may call with no lock held. A method without a written contract gets
// the default entry contract (lock free on entry, released on return), so that a method added later is verified
// against the lock discipline as well (its accesses to guarded fields must happen inside its own critical section).
// Methods of types without a mutex (ExchangeToPrice) are checked where they are inlined into their callers.
func (p *Prog) autoLockEntries() {
	p.AutoEntries = nil
	if len(p.Guarded) == 0 {
		return
	}
	pkgs := map[string]bool{}
	for g := range p.Guarded {
		pkgs[g[:strings.Index(g, ".")]] = true
	}
	for _, k := range p.sortedFuncKeys() {
		fn := p.Funcs[k]
		if fn == nil || fn.Synthetic != "" || fn.Parent() != nil || len(fn.Blocks) == 0 || !productionFunc(k) {
			continue
		}
		recv := fn.Signature.Recv()
		if recv == nil || !pkgs[relPkg(fnPkgPath(fn))] || !fn.Object().Exported() {
			continue
		}
		t := recv.Type()
		star := ""
		if pt, ok := t.(*types.Pointer); ok {
			t = pt.Elem()
			star = "*"
		}
		nt, ok := types.Unalias(t).(*types.Named)
		if !ok {
			continue
		}
		stt, ok := nt.Underlying().(*types.Struct)
		if !ok {
			continue
		}
		owns := false
		for i := 0; i < stt.NumFields(); i++ {
			ft := types.TypeString(stt.Field(i).Type(), nil)
			if ft == "sync.Mutex" || ft == "sync.RWMutex" {
				owns = true
			}
		}
		if !owns {
			continue
		}
		if _, has := p.Contracts[k]; has {
			continue
		}
		var ps []string
		for i := 1; i < len(fn.Params); i++ {
			ps = append(ps, fmt.Sprintf("p%d", i))
		}
		var rs []string
		for i := 0; i < fn.Signature.Results().Len(); i++ {
			rs = append(rs, fmt.Sprintf("r%d", i))
		}
		text := fmt.Sprintf("//@ func (self %s%s).%s(%s) (%s)\n//@ requires [lock_free_on_entry] !locked()\n//@ ensures [lock_released_on_return] !locked()\n",
			star, nt.Obj().Name(), fn.Name(), strings.Join(ps, ", "), strings.Join(rs, ", "))
		p.parseContractFile(relPkg(fnPkgPath(fn)), "<default entry contract>", text)
		if c := p.Contracts[k]; c != nil {
			p.AutoEntries = append(p.AutoEntries, k)
		}
	}
}

func (p *Prog) parseContractFile(rel, file, src string) []string {
	var diags []string
	var cur *Contract
	lines := strings.Split(src, "\n")
	for i := 0; i < len(lines); i++ {
		ln := strings.TrimSpace(lines[i])
		if !strings.HasPrefix(ln, "//@") {
			continue
		}
		body := strings.TrimSpace(ln[3:])
		// continuation lines: following "//@" lines starting with whitespace-indented text that do not begin with a keyword
		startLine := i + 1
		for i+1 < len(lines) {
			nx := strings.TrimSpace(lines[i+1])
			if !strings.HasPrefix(nx, "//@") {
				break
			}
			nb := nx[3:]
			if !strings.HasPrefix(nb, "   ") {
				break
			}
			body += " " + strings.TrimSpace(nb)
			i++
		}
		// strip trailing comment
		if j := strings.Index(body, " // "); j >= 0 {
			body = strings.TrimSpace(body[:j])
		}
		fail := func(msg string) {
			diags = append(diags, fmt.Sprintf("%s:%d: %s", strings.TrimPrefix(file, repoDir+"/"), startLine, msg))
		}
		word := body
		rest := ""
		if j := strings.IndexAny(body, " \t"); j >= 0 {
			word, rest = body[:j], strings.TrimSpace(body[j+1:])
		}
		switch word {
		case "func", "lemma":
			m := reFuncHdr.FindStringSubmatch("func " + rest)
			if m == nil {
				fail("cannot parse function header: " + rest)
				cur = nil
				continue
			}
			cur = &Contract{IterInv: map[int][]Clause{}, LoopInv: map[int][]Clause{}, LoopFinger: map[int]string{}, File: file, Line: startLine, Lemma: word == "lemma"}
			key := rel + "."
			if m[2] != "" {
				rn := m[2]
				if k := strings.Index(rn, "["); k >= 0 {
					rn = rn[:k]
				}
				key += rn + "."
				cur.RecvName = m[1]
				cur.ParamNames = append(cur.ParamNames, m[1])
			}
			key += strings.ReplaceAll(m[3], " ", "")
			cur.Key = key
			for _, pn := range splitNames(m[4]) {
				cur.ParamNames = append(cur.ParamNames, pn)
			}
			if m[5] != "" {
				cur.ResultNames = splitNames(m[5])
			} else if m[6] != "" {
				cur.ResultNames = []string{m[6]}
			}
			if _, dup := p.Contracts[key]; dup {
				fail("duplicate contract for " + key)
			}
			p.Contracts[key] = cur
		case "requires", "ensures":
			if cur == nil {
				fail(word + " outside a func block")
				continue
			}
			label, txt := splitLabel(rest)
			ex, err := parseExpr(txt)
			if err != nil {
				fail(fmt.Sprintf("%s: %v", word, err))
				cur.Assumes = append(cur.Assumes, "unparsed clause (treated as stale): "+txt)
				cur.Requires = append(cur.Requires, Clause{label: "stale", expr: &ELit{Kind: "bool", Val: "false"}, src: txt})
				continue
			}
			cl := Clause{label: label, expr: ex, src: txt, line: startLine}
			if cl.label == "" {
				cl.label = autoLabel(txt)
			}
			if word == "requires" {
				cur.Requires = append(cur.Requires, cl)
			} else {
				cur.Ensures = append(cur.Ensures, cl)
			}
		case "modifies":
			if cur == nil {
				fail("modifies outside a func block")
				continue
			}
			for _, m := range strings.Split(rest, ",") {
				if m = strings.TrimSpace(m); m != "" {
					cur.Modifies = append(cur.Modifies, m)
				}
			}
		case "trusted":
			if cur != nil {
				cur.Trusted = true
			}
		case "loop":
			if cur == nil {
				fail("loop outside a func block")
				continue
			}
			// loop N [ "fingerprint" ] invariant [label] expr
			parts := strings.SplitN(rest, " ", 2)
			n, err := strconv.Atoi(parts[0])
			if err != nil || len(parts) < 2 {
				fail("loop: need ordinal")
				continue
			}
			r := strings.TrimSpace(parts[1])
			if strings.HasPrefix(r, "\"") {
				if k := strings.Index(r[1:], "\""); k >= 0 {
					cur.LoopFinger[n] = r[1 : k+1]
					r = strings.TrimSpace(r[k+2:])
				}
			}
			if strings.HasPrefix(r, "invariant") {
				label, txt := splitLabel(strings.TrimSpace(r[len("invariant"):]))
				ex, err := parseExpr(txt)
				if err != nil {
					fail(fmt.Sprintf("loop invariant: %v", err))
					continue
				}
				if label == "" {
					label = autoLabel(txt)
				}
				cur.LoopInv[n] = append(cur.LoopInv[n], Clause{label: label, expr: ex, src: txt, line: startLine})
			} else if r == "" {
				// fingerprint only
			} else {
				fail("loop: expected invariant")
			}
		case "iter":
			if cur == nil {
				fail("iter outside a func block")
				continue
			}
			parts := strings.SplitN(rest, " ", 2)
			n, err := strconv.Atoi(parts[0])
			if err != nil || len(parts) < 2 || !strings.HasPrefix(strings.TrimSpace(parts[1]), "invariant") {
				fail("iter: expected `iter N invariant [label] expr`")
				continue
			}
			label, txt := splitLabel(strings.TrimSpace(strings.TrimSpace(parts[1])[len("invariant"):]))
			ex, err := parseExpr(txt)
			if err != nil {
				fail(fmt.Sprintf("iter invariant: %v", err))
				continue
			}
			if label == "" {
				label = autoLabel(txt)
			}
			cur.IterInv[n] = append(cur.IterInv[n], Clause{label: label, expr: ex, src: txt, line: startLine})
		case "assume":
			if cur != nil {
				cur.Assumes = append(cur.Assumes, rest)
			}
		case "uses":
			if cur == nil {
				fail("uses outside a func block")
				continue
			}
			if cur.Uses == nil {
				cur.Uses = map[string]bool{}
			}
			for _, u := range splitNames(rest) {
				if u != "sum_congruence" && u != "inline_at_calls" {
					fail("uses: unknown engine lemma " + u)
					continue
				}
				cur.Uses[u] = true
			}
		case "define":
			// define name(p1, p2) = expr   (file-level macro, usable in all contracts)
			eqi := strings.Index(rest, "=")
			lp, rp := strings.Index(rest, "("), strings.Index(rest, ")")
			if eqi < 0 || lp < 0 || rp < lp || rp > eqi {
				fail("define: expected name(params) = expr")
				continue
			}
			name := strings.TrimSpace(rest[:lp])
			ex, err := parseExpr(strings.TrimSpace(rest[eqi+1:]))
			if err != nil {
				fail(fmt.Sprintf("define %s: %v", name, err))
				continue
			}
			p.Macros[name] = &Macro{Name: name, Params: splitNames(rest[lp+1 : rp]), Body: ex}
		case "guarded":
			// guarded Type.field   (package-level): the field of *Type is read or written only with the lock held
			if strings.Count(rest, ".") != 1 {
				fail("guarded: expected Type.field")
				continue
			}
			p.Guarded[rel+"."+rest] = true
		default:
			// free text line (documentation) is allowed after "note"
			if word != "note" {
				fail("unknown contract keyword: " + word)
			}
		}
	}
	return diags
}

func splitNames(s string) []string {
	var out []string
	for _, x := range strings.Split(s, ",") {
		x = strings.TrimSpace(x)
		if x == "" {
			continue
		}
		// allow "name type"
		if j := strings.IndexAny(x, " \t"); j >= 0 {
			x = x[:j]
		}
		out = append(out, x)
	}
	return out
}

func splitLabel(s string) (label, rest string) {
	s = strings.TrimSpace(s)
	if strings.HasPrefix(s, "[") {
		if j := strings.Index(s, "]"); j > 0 {
			return strings.TrimSpace(s[1:j]), strings.TrimSpace(s[j+1:])
		}
	}
	return "", s
}

func autoLabel(txt string) string {
	var b strings.Builder
	for _, c := range txt {
		if unicode.IsLetter(c) || unicode.IsDigit(c) {
			b.WriteRune(c)
		} else if b.Len() > 0 && !strings.HasSuffix(b.String(), "_") {
			b.WriteByte('_')
		}
		if b.Len() >= 32 {
			break
		}
	}
	return strings.Trim(b.String(), "_")
}

type Macro struct {
	Name   string
	Params []string
	Body   Expr
}

// ---------- expressions ----------

type Expr interface{}

type (
	EIdent struct{ Name string }
	ELit   struct{ Kind, Val string }
	EUn    struct {
		Op string
		X  Expr
	}
	EBin struct {
		Op   string
		X, Y Expr
	}
	ECall struct {
		Fn   string
		Args []Expr
	}
	ESel struct {
		X    Expr
		Name string
	}
	EIndex struct{ X, I Expr }
	EQuant struct {
		Sum    bool
		Forall bool
		Var    string
		Lo, Hi Expr
		Sort   string
		Body   Expr
	}
	ECond struct{ C, A, B Expr }
)

type tok struct {
	k string // id, num, str, op, eof
	v string
}

func lex(s string) ([]tok, error) {
	var ts []tok
	i := 0
	for i < len(s) {
		c := s[i]
		switch {
		case c == ' ' || c == '\t':
			i++
		case unicode.IsLetter(rune(c)) || c == '_' || c == '$':
			j := i + 1
			for j < len(s) && (unicode.IsLetter(rune(s[j])) || unicode.IsDigit(rune(s[j])) || s[j] == '_' || s[j] == '$') {
				j++
			}
			ts = append(ts, tok{"id", s[i:j]})
			i = j
		case unicode.IsDigit(rune(c)):
			j := i + 1
			for j < len(s) && (unicode.IsDigit(rune(s[j])) || s[j] == '_' || s[j] == 'x' || (s[j] >= 'a' && s[j] <= 'f') || (s[j] >= 'A' && s[j] <= 'F')) {
				j++
			}
			ts = append(ts, tok{"num", strings.ReplaceAll(s[i:j], "_", "")})
			i = j
		case c == '"':
			j := i + 1
			for j < len(s) && s[j] != '"' {
				if s[j] == '\\' {
					j++
				}
				j++
			}
			if j >= len(s) {
				return nil, fmt.Errorf("unterminated string")
			}
			u, err := strconv.Unquote(s[i : j+1])
			if err != nil {
				return nil, err
			}
			ts = append(ts, tok{"str", u})
			i = j + 1
		default:
			ops := []string{"<==>", "==>", "::", "==", "!=", "<=", ">=", "&&", "||", "..", "(", ")", "[", "]", ",", ".", "+", "-", "*", "/", "%", "<", ">", "!", "?", ":", "^"}
			matched := false
			for _, op := range ops {
				if strings.HasPrefix(s[i:], op) {
					ts = append(ts, tok{"op", op})
					i += len(op)
					matched = true
					break
				}
			}
			if !matched {
				return nil, fmt.Errorf("unexpected character %q", c)
			}
		}
	}
	ts = append(ts, tok{"eof", ""})
	return ts, nil
}

type parser struct {
	ts []tok
	i  int
}

func parseExpr(s string) (Expr, error) {
	ts, err := lex(s)
	if err != nil {
		return nil, err
	}
	p := &parser{ts: ts}
	e, err := p.expr(0)
	if err != nil {
		return nil, err
	}
	if p.peek().k != "eof" {
		return nil, fmt.Errorf("unexpected %q", p.peek().v)
	}
	return e, nil
}

func (p *parser) peek() tok { return p.ts[p.i] }
func (p *parser) next() tok { t := p.ts[p.i]; p.i++; return t }
func (p *parser) accept(v string) bool {
	if p.peek().k == "op" && p.peek().v == v {
		p.i++
		return true
	}
	return false
}
func (p *parser) expect(v string) error {
	if !p.accept(v) {
		return fmt.Errorf("expected %q, got %q", v, p.peek().v)
	}
	return nil
}

var prec = map[string]int{"<==>": 1, "==>": 2, "||": 3, "&&": 4, "==": 5, "!=": 5, "<": 5, "<=": 5, ">": 5, ">=": 5, "+": 6, "-": 6, "*": 7, "/": 7, "%": 7}

func (p *parser) expr(minPrec int) (Expr, error) {
	// quantifiers bind loosest
	if p.peek().k == "id" && (p.peek().v == "forall" || p.peek().v == "exists" || p.peek().v == "sum") && p.ts[p.i+1].k == "id" {
		return p.quant()
	}
	lhs, err := p.unary()
	if err != nil {
		return nil, err
	}
	for {
		t := p.peek()
		if t.k != "op" {
			break
		}
		pr, ok := prec[t.v]
		if !ok || pr < minPrec {
			break
		}
		p.next()
		var rhs Expr
		if t.v == "==>" || t.v == "<==>" {
			rhs, err = p.expr(pr) // right assoc
		} else {
			rhs, err = p.expr(pr + 1)
		}
		if err != nil {
			return nil, err
		}
		lhs = &EBin{Op: t.v, X: lhs, Y: rhs}
	}
	if minPrec == 0 && p.accept("?") {
		a, err := p.expr(0)
		if err != nil {
			return nil, err
		}
		if err := p.expect(":"); err != nil {
			return nil, err
		}
		b, err := p.expr(0)
		if err != nil {
			return nil, err
		}
		return &ECond{C: lhs, A: a, B: b}, nil
	}
	return lhs, nil
}

func (p *parser) quant() (Expr, error) {
	kw := p.next().v
	q := &EQuant{Forall: kw == "forall", Sum: kw == "sum"}
	if p.peek().k != "id" {
		return nil, fmt.Errorf("quantifier: expected variable")
	}
	q.Var = p.next().v
	if p.peek().k == "id" && p.peek().v == "in" {
		p.next()
		if err := p.expect("["); err != nil {
			return nil, err
		}
		lo, err := p.expr(0)
		if err != nil {
			return nil, err
		}
		if err := p.expect(","); err != nil {
			return nil, err
		}
		hi, err := p.expr(0)
		if err != nil {
			return nil, err
		}
		if err := p.expect(")"); err != nil {
			return nil, err
		}
		q.Lo, q.Hi = lo, hi
	} else if p.peek().k == "id" {
		q.Sort = p.next().v
	} else {
		q.Sort = "int"
	}
	if err := p.expect("::"); err != nil {
		return nil, err
	}
	body, err := p.expr(0)
	if err != nil {
		return nil, err
	}
	q.Body = body
	return q, nil
}

func (p *parser) unary() (Expr, error) {
	if p.accept("!") {
		x, err := p.unary()
		if err != nil {
			return nil, err
		}
		return &EUn{Op: "!", X: x}, nil
	}
	if p.accept("-") {
		x, err := p.unary()
		if err != nil {
			return nil, err
		}
		return &EUn{Op: "-", X: x}, nil
	}
	return p.postfix()
}

func (p *parser) postfix() (Expr, error) {
	var x Expr
	t := p.next()
	switch t.k {
	case "num":
		x = &ELit{Kind: "int", Val: t.v}
	case "str":
		x = &ELit{Kind: "str", Val: t.v}
	case "id":
		switch t.v {
		case "true", "false":
			x = &ELit{Kind: "bool", Val: t.v}
		case "nil":
			x = &ELit{Kind: "nil"}
		default:
			x = &EIdent{Name: t.v}
		}
	case "op":
		if t.v == "(" {
			e, err := p.expr(0)
			if err != nil {
				return nil, err
			}
			if err := p.expect(")"); err != nil {
				return nil, err
			}
			x = e
		} else {
			return nil, fmt.Errorf("unexpected %q", t.v)
		}
	default:
		return nil, fmt.Errorf("unexpected end of expression")
	}
	for {
		switch {
		case p.accept("."):
			if p.peek().k != "id" {
				return nil, fmt.Errorf("expected field name")
			}
			name := p.next().v
			// qualified spec function / ghost name: ident.ident(
			x = &ESel{X: x, Name: name}
		case p.accept("["):
			i, err := p.expr(0)
			if err != nil {
				return nil, err
			}
			if err := p.expect("]"); err != nil {
				return nil, err
			}
			x = &EIndex{X: x, I: i}
		case p.peek().k == "op" && p.peek().v == "(":
			name := exprName(x)
			if name == "" {
				return x, nil
			}
			p.next()
			var args []Expr
			if !p.accept(")") {
				for {
					a, err := p.expr(0)
					if err != nil {
						return nil, err
					}
					args = append(args, a)
					if p.accept(")") {
						break
					}
					if err := p.expect(","); err != nil {
						return nil, err
					}
				}
			}
			x = &ECall{Fn: name, Args: args}
		default:
			return x, nil
		}
	}
}

func exprName(x Expr) string {
	switch y := x.(type) {
	case *EIdent:
		return y.Name
	case *ESel:
		if b := exprName(y.X); b != "" {
			return b + "." + y.Name
		}
	}
	return ""
}

// ---------- evaluation ----------

// specInt is the type of mathematical integers in contracts.
var specInt = types.NewNamed(types.NewTypeName(0, nil, "specint", nil), types.Typ[types.Int64], nil)
var specBool = types.Typ[types.Bool]

type evalEnv struct {
	e      *Engine
	st     *State
	old    *State
	lookup func(name string) (Val, bool)
	bound  map[string]Val
	fr     *Frame
	loop   *loopInfo
	cur    *State // the post-state while evaluating inside old(...): the call log is always read from it
}

func (env *evalEnv) logState() *State {
	if env.cur != nil {
		return env.cur
	}
	return env.st
}

func (env *evalEnv) with(name string, v Val) *evalEnv {
	n := *env
	n.bound = map[string]Val{}
	for k, x := range env.bound {
		n.bound[k] = x
	}
	n.bound[name] = v
	return &n
}

func (e *Engine) evalBool(x Expr, env *evalEnv) string {
	v := e.eval(x, env)
	return v.S
}

func (e *Engine) evalErr(msg string) Val {
	e.contractErrs = append(e.contractErrs, msg)
	return Val{S: "false", T: specBool}
}

func isIntLike(t types.Type) bool {
	if t == nil {
		return false
	}
	switch kindOf(t) {
	case kInt, kMathInt, kDec, kTime:
		return true
	}
	return false
}

func (e *Engine) eval(x Expr, env *evalEnv) Val {
	switch y := x.(type) {
	case *ELit:
		switch y.Kind {
		case "int":
			v := y.Val
			if strings.HasPrefix(v, "0x") {
				n, _ := strconv.ParseUint(v[2:], 16, 64)
				v = fmt.Sprint(n)
			}
			return Val{S: v, T: specInt}
		case "bool":
			return Val{S: y.Val, T: specBool}
		case "str":
			return Val{S: e.vc.strLit(y.Val), T: types.Typ[types.String]}
		case "nil":
			return Val{S: "nil", T: types.Typ[types.UntypedNil]}
		}
	case *EIdent:
		if v, ok := env.bound[y.Name]; ok {
			return v
		}
		if env.lookup != nil {
			if v, ok := env.lookup(y.Name); ok {
				return e.deref(v, env)
			}
		}
		if v, ok := e.specConst(y.Name, env); ok {
			return v
		}
		return e.evalErr("unknown identifier " + y.Name)
	case *EUn:
		v := e.eval(y.X, env)
		if y.Op == "!" {
			return Val{S: not(v.S), T: specBool}
		}
		return Val{S: app("-", v.S), T: specInt}
	case *EBin:
		return e.evalBin(y, env)
	case *ECond:
		c, a, b := e.eval(y.C, env), e.eval(y.A, env), e.eval(y.B, env)
		return Val{S: ite(c.S, a.S, b.S), T: a.T}
	case *ESel:
		// a selector whose root identifier is a variable of the function is a field access; only otherwise is it a
		// qualified name (ghost store, package constant)
		if name := exprName(y); name != "" {
			if v, ok := env.bound[name]; ok {
				return v
			}
			root := name
			if i := strings.Index(root, "."); i >= 0 {
				root = root[:i]
			}
			isVar := false
			if _, ok := env.bound[root]; ok {
				isVar = true
			} else if env.lookup != nil {
				if _, ok := env.lookup(root); ok {
					isVar = true
				}
			}
			if v, ok := e.ghostConst(name, env); ok {
				return v // registered ghost stores (module.Field, bank.bal, ...) take precedence
			}
			if !isVar {
				if v, ok := e.specConst(name, env); ok {
					return v
				}
			}
		}
		base := e.eval(y.X, env)
		return e.selField(base, y.Name, env)
	case *EIndex:
		base := e.eval(y.X, env)
		idx := e.eval(y.I, env)
		return e.indexOf(base, idx, env)
	case *ECall:
		return e.evalCall(y, env)
	case *autoRange:
		pv, ok := env.lookup("rangeindex")
		if !ok || env.fr == nil {
			return e.evalErr("auto range: no index")
		}
		ln := env.fr.get(y.ln)
		return Val{S: and(app("<=", "(- 1)", pv.S), app("<=", pv.S, app("-", ln.S, "1"))), T: specBool}
	case *EQuant:
		srt := "Int"
		var vt types.Type = specInt
		switch y.Sort {
		case "string", "str":
			srt, vt = "Str", types.Typ[types.String]
		case "bool":
			srt, vt = "Bool", specBool
		case "addr":
			srt, vt = "Addr", addrT
		case "bytes":
			srt, vt = "BV", bvT
		}
		e.qn++
		bv := fmt.Sprintf("%s_q%d", mangle(y.Var), e.qn)
		sub := env.with(y.Var, Val{S: bv, T: vt})
		body := e.eval(y.Body, sub)
		if y.Sum {
			return e.evalSum(y, env, bv, body)
		}
		rng := "true"
		if y.Lo != nil {
			lo, hi := e.eval(y.Lo, env), e.eval(y.Hi, env)
			rng = and(app("<=", lo.S, bv), app("<", bv, hi.S))
		}
		pats := ""
		for _, p := range inferPatterns(body.S, bv) {
			pats += " :pattern (" + p + ")"
		}
		if y.Forall {
			f := implies(rng, body.S)
			if pats != "" {
				f = "(! " + f + pats + ")"
			}
			return Val{S: fmt.Sprintf("(forall ((%s %s)) %s)", bv, srt, f), T: specBool}
		}
		f := and(rng, body.S)
		if pats != "" {
			f = "(! " + f + pats + ")"
		}
		return Val{S: fmt.Sprintf("(exists ((%s %s)) %s)", bv, srt, f), T: specBool}
	}
	return e.evalErr(fmt.Sprintf("cannot evaluate %T", x))
}

// deref: variables that are held in memory (Alloc'd locals) denote their current content.
func (e *Engine) deref(v Val, env *evalEnv) Val {
	return v
}

func (e *Engine) evalBin(y *EBin, env *evalEnv) Val {
	switch y.Op {
	case "&&":
		return Val{S: and(e.eval(y.X, env).S, e.eval(y.Y, env).S), T: specBool}
	case "||":
		return Val{S: or(e.eval(y.X, env).S, e.eval(y.Y, env).S), T: specBool}
	case "==>":
		return Val{S: implies(e.eval(y.X, env).S, e.eval(y.Y, env).S), T: specBool}
	case "<==>":
		return Val{S: eq(e.eval(y.X, env).S, e.eval(y.Y, env).S), T: specBool}
	}
	a, b := e.eval(y.X, env), e.eval(y.Y, env)
	switch y.Op {
	case "==", "!=":
		var r string
		switch {
		case a.S == "nil" && b.S == "nil":
			r = "true"
		case b.S == "nil":
			r = e.isNil(a)
		case a.S == "nil":
			r = e.isNil(b)
		case a.G != nil && b.G != nil && a.G.name == b.G.name && a.GSt != nil && b.GSt != nil && (a.G.kind == "map" || a.G.kind == "item"):
			// two states of one store: same keys and same values
			dn, vn := a.G.name+"_d", a.G.name+"_v"
			r = and(eq(e.heap(a.GSt, vn, e.heapSorts[vn]), e.heap(b.GSt, vn, e.heapSorts[vn])), eq(e.heap(a.GSt, dn, e.heapSorts[dn]), e.heap(b.GSt, dn, e.heapSorts[dn])))
		default:
			r = eq(a.S, b.S)
		}
		if y.Op == "!=" {
			r = not(r)
		}
		return Val{S: r, T: specBool}
	case "<", "<=", ">", ">=":
		if a.T != nil && kindOf(a.T) == kStr {
			switch y.Op {
			case "<":
				return Val{S: app("str_lt", a.S, b.S), T: specBool}
			case ">":
				return Val{S: app("str_lt", b.S, a.S), T: specBool}
			case "<=":
				return Val{S: not(app("str_lt", b.S, a.S)), T: specBool}
			default:
				return Val{S: not(app("str_lt", a.S, b.S)), T: specBool}
			}
		}
		return Val{S: app(y.Op, a.S, b.S), T: specBool}
	case "+", "-", "*":
		return Val{S: app(y.Op, a.S, b.S), T: specInt}
	case "/":
		return Val{S: app("tdiv", a.S, b.S), T: specInt}
	case "%":
		return Val{S: app("trem", a.S, b.S), T: specInt}
	}
	return e.evalErr("operator " + y.Op)
}

func (e *Engine) isNil(v Val) string {
	switch kindOf(v.T) {
	case kIface:
		return eq(v.S, "iface_nil")
	case kPtr, kMap:
		return eq(v.S, "0")
	case kSlice:
		return eq(app("sptr", v.S), "0")
	case kFunc:
		e.vc.declSort("(declare-const fn_nil Fn)")
		return eq(v.S, "fn_nil")
	}
	return eq(v.S, e.zero(v.T))
}

func (e *Engine) selField(base Val, name string, env *evalEnv) Val {
	if base.T == nil {
		return e.evalErr("field " + name + " of untyped value")
	}
	t := types.Unalias(base.T)
	if pt, ok := t.Underlying().(*types.Pointer); ok && kindOf(t) == kPtr {
		// implicit dereference
		hn, hs := e.vc.heapName(pt.Elem())
		st := env.st
		if base.Log {
			st = env.logState()
		}
		base = Val{S: app("select", e.heap(st, hn, hs), base.S), T: pt.Elem(), Log: base.Log}
		t = types.Unalias(pt.Elem())
	}
	st, ok := t.Underlying().(*types.Struct)
	if !ok {
		return e.evalErr(fmt.Sprintf("field %s of non-struct %s", name, t))
	}
	ss := e.vc.structInfo(t)
	for i := 0; i < st.NumFields(); i++ {
		if st.Field(i).Name() == name {
			if ss.opaque {
				e.vc.declFun(ss.fields[i], []string{ss.name}, e.vc.sortOf(ss.ftypes[i]))
			}
			return Val{S: app(ss.fields[i], base.S), T: st.Field(i).Type(), Log: base.Log}
		}
	}
	// embedded
	for i := 0; i < st.NumFields(); i++ {
		if st.Field(i).Embedded() {
			inner := Val{S: app(ss.fields[i], base.S), T: st.Field(i).Type()}
			if r := e.trySel(inner, name, env); r != nil {
				return *r
			}
		}
	}
	return e.evalErr(fmt.Sprintf("contract-stale: no field %s in %s", name, t))
}

func (e *Engine) trySel(base Val, name string, env *evalEnv) *Val {
	n := len(e.contractErrs)
	v := e.selField(base, name, env)
	if len(e.contractErrs) > n {
		e.contractErrs = e.contractErrs[:n]
		return nil
	}
	return &v
}

func (e *Engine) indexOf(base, idx Val, env *evalEnv) Val {
	if base.T == nil {
		return e.evalErr("index of untyped value")
	}
	switch bt := types.Unalias(base.T).Underlying().(type) {
	case *types.Slice:
		hn, hs := e.vc.arrHeapName(bt.Elem())
		return Val{S: app("select", app("select", e.heap(env.st, hn, hs), app("sptr", base.S)), app("idx", app("soff", base.S), idx.S)), T: bt.Elem()}
	case *types.Array:
		return Val{S: app("select", base.S, idx.S), T: bt.Elem()}
	case *types.Map:
		vn, vs, dn, ds := e.vc.mapHeapName(bt.Key(), bt.Elem())
		dom := app("select", app("select", e.heap(env.st, dn, ds), base.S), idx.S)
		val := app("select", app("select", e.heap(env.st, vn, vs), base.S), idx.S)
		return Val{S: ite(dom, val, e.zero(bt.Elem())), T: bt.Elem()}
	}
	if base.T == seqT {
		return Val{S: app("seq_at", base.S, idx.S), T: specInt}
	}
	if base.G != nil {
		switch base.G.kind {
		case "bank":
			return Val{S: app("select", base.S, idx.S), T: specInt}
		case "map":
			return Val{S: app("select", base.S, e.specKey(idx, env)), T: base.G.vt}
		}
	}
	if strings.HasPrefix(e.sortOfVal(base), "(Array") {
		return Val{S: app("select", base.S, idx.S), T: base.specElem()}
	}
	return e.evalErr(fmt.Sprintf("index of %s", base.T))
}

func (v Val) specElem() types.Type { return specInt }

func (e *Engine) sortOfVal(v Val) string {
	if v.T == nil {
		return ""
	}
	return e.vc.sortOf(v.T)
}

func (e *Engine) specConst(name string, env *evalEnv) (Val, bool) {
	switch name {
	case "MaxInt64":
		return Val{S: "9223372036854775807", T: specInt}, true
	case "MinInt64":
		return Val{S: "(- 9223372036854775808)", T: specInt}, true
	case "MaxUint64":
		return Val{S: "18446744073709551615", T: specInt}, true
	case "ONE_DEC":
		return Val{S: "1000000000000000000", T: specInt}, true
	}
	if strings.HasPrefix(name, "called_") {
		e.heapSorts[name] = "Bool"
		if _, ok := env.st.heaps[name]; !ok {
			return Val{S: "false", T: specBool}, true
		}
		return Val{S: env.st.heaps[name], T: specBool}, true
	}
	if v, ok := e.pkgConst(name); ok {
		return v, true
	}
	if v, ok := e.ghostConst(name, env); ok {
		return v, true
	}
	return Val{}, false
}

func (e *Engine) evalCall(y *ECall, env *evalEnv) Val {
	arg := func(i int) Val { return e.eval(y.Args[i], env) }
	need := func(n int) bool {
		if len(y.Args) != n {
			e.evalErr(fmt.Sprintf("%s expects %d arguments", y.Fn, n))
			return false
		}
		return true
	}
	switch y.Fn {
	case "old":
		if !need(1) {
			break
		}
		sub := *env
		if sub.cur == nil {
			sub.cur = env.st
		}
		sub.st = env.old
		return e.eval(y.Args[0], &sub)
	case "len":
		if !need(1) {
			break
		}
		a := arg(0)
		switch kindOf(a.T) {
		case kSlice:
			return Val{S: app("slen", a.S), T: specInt}
		case kStr:
			return Val{S: app("str_len", a.S), T: specInt}
		case kArray:
			return Val{S: fmt.Sprint(types.Unalias(a.T).Underlying().(*types.Array).Len()), T: specInt}
		}
		return e.evalErr("len of " + a.T.String())
	case "abs":
		return Val{S: app("iabs", arg(0).S), T: specInt}
	case "min":
		return Val{S: app("imin", arg(0).S, arg(1).S), T: specInt}
	case "max":
		return Val{S: app("imax", arg(0).S, arg(1).S), T: specInt}
	case "tdiv":
		return Val{S: app("tdiv", arg(0).S, arg(1).S), T: specInt}
	case "div":
		return Val{S: app("div", arg(0).S, arg(1).S), T: specInt}
	case "mod":
		return Val{S: app("mod", arg(0).S, arg(1).S), T: specInt}
	case "decmul", "decquo", "dectrunc":
		// LegacyDec operations as the same uninterpreted functions the library specs use; their defining
		// (relational) facts are asserted for ground arguments
		var as []string
		for i := range y.Args {
			as = append(as, arg(i).S)
		}
		ground := true
		for _, bvv := range env.bound {
			if isBoundVarName(bvv.S) && hasAnyToken(strings.Join(as, " "), []string{bvv.S}) {
				ground = false
			}
		}
		r := app(y.Fn, as...)
		if ground {
			switch y.Fn {
			case "decmul":
				e.vc.assume(app("is_round_he", app("*", as[0], as[1]), r))
			case "decquo":
				x := app("decquo_x", as[0], as[1])
				e.vc.assume(implies(not(eq(as[1], "0")), and(app("is_tdiv", app("*", as[0], "1000000000000000000000000000000000000"), as[1], x), app("is_round_he", x, r))))
			case "dectrunc":
				e.vc.assume(app("is_tdiv", as[0], "1000000000000000000", r))
			}
		}
		return Val{S: r, T: specInt}
	case "round_he", "dec_mul", "dec_quo", "dec_trunc", "dec_of_int", "dec_quo_trunc":
		var as []string
		for i := range y.Args {
			as = append(as, arg(i).S)
		}
		return Val{S: app(y.Fn, as...), T: specInt}
	case "locked":
		// locked(): the executing goroutine holds the lock guarding the package's shared state (ghost flag set by
		// sync.Mutex/RWMutex Lock, cleared by Unlock; the identity of the mutex instance is not tracked)
		e.initHeap("lock_held", "Bool")
		return Val{S: e.heap(env.st, "lock_held", "Bool"), T: specBool}
	case "lockcount":
		// lockcount(): how many times the executing goroutine has acquired the lock so far
		e.initHeap("lock_count", "Int")
		return Val{S: e.heap(env.st, "lock_count", "Int"), T: specInt}
	case "called":
		if id, ok := y.Args[0].(*EIdent); ok {
			v, _ := e.specConst("called_"+mangle(id.Name), env)
			return v
		}
	case "ret":
		// ret(F, i): the i-th result of the last call of layer function F
		if len(y.Args) == 2 {
			f, ok1 := y.Args[0].(*EIdent)
			n, ok2 := y.Args[1].(*ELit)
			if ok1 && ok2 {
				hn := "callret_" + mangle(f.Name) + "_" + n.Val
				if t, ok := e.callArgTypes[hn]; ok {
					return Val{S: e.heap(env.logState(), hn, e.heapSorts[hn]), T: t, Log: true}
				}
				return e.evalErr("contract-stale: no call of " + f.Name + " on any path")
			}
		}
	case "argsum":
		// argsum(F, p): the sum of the values passed for numeric parameter p over all calls of F so far
		if len(y.Args) == 2 {
			f, ok1 := y.Args[0].(*EIdent)
			p, ok2 := y.Args[1].(*EIdent)
			if ok1 && ok2 {
				sn := "callsum_" + mangle(f.Name) + "_" + mangle(p.Name)
				return Val{S: e.heap(env.logState(), sn, "Int"), T: specInt}
			}
		}
	case "retsum":
		// retsum(F, i): the sum of the i-th (numeric) results over all calls of F so far
		if len(y.Args) == 2 {
			f, ok1 := y.Args[0].(*EIdent)
			n, ok2 := y.Args[1].(*ELit)
			if ok1 && ok2 {
				return Val{S: e.heap(env.logState(), "callsum_"+mangle(f.Name)+"_ret"+n.Val, "Int"), T: specInt}
			}
		}
	case "arg":
		// arg(F, p): the value passed for parameter p in the last call of layer function F
		if len(y.Args) == 2 {
			f, ok1 := y.Args[0].(*EIdent)
			p, ok2 := y.Args[1].(*EIdent)
			if ok1 && ok2 {
				// a renamed parameter of the callee: its own contract header names parameters by position
				pname := p.Name
				for ck, cc := range e.prog.Contracts {
					if lastName(ck) != f.Name {
						continue
					}
					if fn := e.prog.Funcs[ck]; fn != nil {
						off := 0
						if fn.Signature.Recv() != nil && cc.RecvName != "" {
							off = 0 // ParamNames includes the receiver when the header names it, as fn.Params does
						}
						for i, pn := range cc.ParamNames {
							if pn == p.Name && i+off < len(fn.Params) && fn.Params[i+off].Name() != "" {
								pname = fn.Params[i+off].Name()
							}
						}
					}
				}
				p = &EIdent{Name: pname}
				hn := "callarg_" + mangle(f.Name) + "_" + mangle(p.Name)
				if _, ok := e.callArgTypes[hn]; !ok {
					// not executed yet (e.g. a loop invariant evaluated at the loop head): take the parameter type
					// from the program if every layer function of that name agrees on it
					var pt types.Type
					okAll := true
					for _, fn := range e.prog.Funcs {
						if fn.Name() != f.Name {
							continue
						}
						for _, prm := range fn.Params {
							if prm.Name() == p.Name {
								if pt == nil {
									pt = prm.Type()
								} else if !types.Identical(pt, prm.Type()) {
									okAll = false
								}
							}
						}
					}
					if pt != nil && okAll {
						srt := e.vc.sortOf(pt)
						if srt != "GoTuple" {
							e.initHeap(hn, srt)
							e.callArgTypes[hn] = pt
						}
					}
				}
				if t, ok := e.callArgTypes[hn]; ok {
					return Val{S: e.heap(env.logState(), hn, e.heapSorts[hn]), T: t, Log: true}
				}
				return e.evalErr("contract-stale: no call of " + f.Name + " with parameter " + p.Name + " on any path")
			}
		}
	case "has":
		// has(m, k): key present in a Go map (ghost stores are handled by specFunc)
		if len(y.Args) == 2 {
			m := arg(0)
			if m.G == nil && m.T != nil {
				if mt, ok := types.Unalias(m.T).Underlying().(*types.Map); ok {
					k := arg(1)
					_, _, dn, ds := e.vc.mapHeapName(mt.Key(), mt.Elem())
					return Val{S: app("select", app("select", e.heap(env.st, dn, ds), m.S), k.S), T: specBool}
				}
			}
		}
	case "isnil":
		return Val{S: e.isNil(arg(0)), T: specBool}
	case "typeis", "as":
		if !need(2) {
			break
		}
		lit, ok := y.Args[1].(*ELit)
		if !ok || lit.Kind != "str" {
			return e.evalErr(y.Fn + ": second argument must be a type path string")
		}
		t := e.prog.lookupType(lit.Val)
		if t == nil {
			return e.evalErr("contract-stale: unknown type " + lit.Val)
		}
		x := arg(0)
		tag, key := e.typeTag(t)
		if y.Fn == "typeis" {
			return Val{S: eq(app("typeof", x.S), fmt.Sprint(tag)), T: specBool}
		}
		m := mangle(key)
		srt := e.vc.sortOf(t)
		e.vc.declFun("box_"+m, []string{srt}, "Iface")
		e.vc.declFun("unbox_"+m, []string{"Iface"}, srt)
		return Val{S: app("unbox_"+m, x.S), T: t}
	}
	if m, ok := e.prog.Macros[y.Fn]; ok {
		if len(m.Params) != len(y.Args) {
			return e.evalErr("macro " + y.Fn + ": wrong number of arguments")
		}
		sub := env
		// string-valued macro arguments are passed through placeholders so that sums in the macro body become
		// functions of them (the same uninterpreted sum is then used for every argument value)
		type ph struct{ name, term string }
		var phs []ph
		for i, pn := range m.Params {
			av := arg(i)
			if av.T != nil && kindOf(av.T) == kStr && !isBoundVarName(av.S) {
				e.qn++
				name := fmt.Sprintf("%s_q%d", mangle(pn), e.qn)
				phs = append(phs, ph{name, av.S})
				sub = sub.with(pn, Val{S: name, T: av.T})
				continue
			}
			sub = sub.with(pn, av)
		}
		r := e.eval(m.Body, sub)
		for _, p := range phs {
			r.S = replaceToken(r.S, p.name, p.term)
		}
		return r
	}
	if v, ok := e.specFunc(y, env); ok {
		return v
	}
	return e.evalErr("unknown spec function " + y.Fn)
}

// ---------- binding contracts to frames ----------

// invEnv builds the evaluation environment for loop invariants at the header of li.
func (fr *Frame) invEnv(li *loopInfo, st *State, phiVals map[*ssa.Phi]Val) *evalEnv {
	e := fr.e
	h := li.header
	var env map[string]ssa.Value
	if idom := h.Idom(); idom != nil {
		env = fr.envAt[idom.Index]
	} else {
		env = map[string]ssa.Value{}
	}
	// range loops: key variable denotes the next index to process (phi + 1)
	rangeKey := fr.rangeKeyName(li)
	lookup := func(name string) (Val, bool) {
		if nn, ok := fr.renames[name]; ok {
			name = nn // a local renamed since the baseline (computeRenames)
		}
		// header phis by comment (first in instruction order)
		for _, hin := range h.Instrs {
			phi, isPhi := hin.(*ssa.Phi)
			if !isPhi {
				break
			}
			if v, ok := phiVals[phi]; ok && phi.Comment == name {
				return v, true
			}
		}
		if strings.HasPrefix(name, "$i") && len(name) > 2 {
			// $iN: the index of (enclosing or own) range loop N: processed-count at its header, current index in its body
			var n int
			if _, err := fmt.Sscan(name[2:], &n); err == nil {
				srcOrd := n
				if fr.contract != nil {
					for so, co := range fr.loopAssignment() {
						if co == n {
							srcOrd = so
						}
					}
				}
				for _, l2 := range fr.loopList {
					if l2.ordinal != srcOrd {
						continue
					}
					for _, in := range l2.header.Instrs {
						phi, ok := in.(*ssa.Phi)
						if !ok {
							break
						}
						if phi.Comment != "rangeindex" {
							continue
						}
						if l2 == li {
							if v, ok := phiVals[phi]; ok {
								return Val{S: e.vc.defineAlways("ri", "Int", app("+", v.S, "1")), T: specInt}, true
							}
						}
						if v, ok := fr.regs[phi]; ok {
							return Val{S: e.vc.defineAlways("ri", "Int", app("+", v.S, "1")), T: specInt}, true
						}
					}
				}
			}
		}
		if name == "$i" || (rangeKey != "" && name == rangeKey) {
			for phi, v := range phiVals {
				if phi.Comment == "rangeindex" {
					return Val{S: e.vc.defineAlways("ri", "Int", app("+", v.S, "1")), T: specInt}, true
				}
			}
		}
		return fr.lookupVar(name, env, st)
	}
	return &evalEnv{e: e, st: st, old: fr.entry, lookup: lookup, fr: fr, loop: li}
}

// lookupVar resolves a source variable name to its current symbolic value.
func (fr *Frame) lookupVar(name string, env map[string]ssa.Value, st *State) (Val, bool) {
	if fr.top && fr.contract != nil {
		// contract parameter names (positional) take precedence
		for i, pn := range fr.contract.ParamNames {
			if pn == name && i < len(fr.params) {
				return fr.params[i], true
			}
		}
	}
	if sv, ok := env["&"+name]; ok {
		v := fr.get(sv)
		if v.Addr != nil || kindOf(v.T) == kPtr {
			a := fr.addrOf(v)
			if a.kind == aElem && a.idx == "" {
				hn, hs := fr.e.vc.arrHeapName(a.rootT)
				return Val{S: app("select", fr.e.heap(st, hn, hs), a.ref), T: a.T}, true
			}
			root := fr.e.loadRoot(st, a)
			return Val{S: fr.e.pathGet(root, a.path), T: a.T}, true
		}
	}
	if sv, ok := env[name]; ok {
		if r, ok := fr.regs[sv]; ok {
			return r, true
		}
		switch sv.(type) {
		case *ssa.Const, *ssa.Parameter, *ssa.FreeVar, *ssa.Global, *ssa.Function:
			return fr.get(sv), true
		}
	}
	for i, p := range fr.fn.Params {
		if p.Name() == name && i < len(fr.params) {
			return fr.params[i], true
		}
	}
	if nn, ok := fr.renames[name]; ok && nn != name {
		return fr.lookupVar(nn, env, st)
	}
	return Val{}, false
}

// contractLoop: when the header text of source loop li does not match the contract's loop of the same ordinal but
// matches exactly one other contract loop whose own ordinal does not match either, that one is meant (a loop was
// added or removed earlier in the function).
func (fr *Frame) contractLoop(li *loopInfo) (int, bool) {
	norm := func(s string) string { return strings.Join(strings.Fields(s), " ") }
	if li.finger == "" {
		return 0, false
	}
	if fp, ok := fr.contract.LoopFinger[li.ordinal]; ok && norm(fp) == li.finger {
		return li.ordinal, true
	}
	byOrd := map[int]string{}
	for _, l2 := range fr.loopList {
		byOrd[l2.ordinal] = l2.finger
	}
	found, n := 0, 0
	for co, fp := range fr.contract.LoopFinger {
		if norm(fp) != li.finger {
			continue
		}
		if byOrd[co] == norm(fp) {
			continue // that contract loop has its own source loop
		}
		found = co
		n++
	}
	// and no other source loop has the same header text
	same := 0
	for _, l2 := range fr.loopList {
		if l2.finger == li.finger {
			same++
		}
	}
	if n == 1 && same == 1 {
		return found, true
	}
	return 0, false
}

var reIdent = regexp.MustCompile(`[A-Za-z_][A-Za-z_0-9]*`)

// fingerShape: a loop header with every identifier except keywords replaced by "_".
func fingerShape(fp string) string {
	fp = strings.Join(strings.Fields(fp), " ")
	return reIdent.ReplaceAllStringFunc(fp, func(w string) string {
		switch w {
		case "for", "range", "len", "int", "uint64", "int64":
			return w
		}
		return "_"
	})
}

type invClause struct {
	label string
	expr  Expr
}

// loopInvariants: contract-supplied invariants plus automatic range facts.
func (fr *Frame) loopInvariants(li *loopInfo) []invClause {
	var out []invClause
	// automatic: range-over-slice index bounds
	for _, in := range li.header.Instrs {
		phi, ok := in.(*ssa.Phi)
		if !ok {
			break
		}
		if phi.Comment == "rangeindex" {
			// find the length: header computes phi+1 < len
			if ln := fr.rangeLen(li, phi); ln != nil {
				out = append(out, invClause{label: "auto_range", expr: &autoRange{phi: phi, ln: ln}})
			}
		}
	}
	if fr.contract != nil && fr.loopMapBad && len(fr.contract.LoopInv) > 0 {
		fr.e.contractErrs = append(fr.e.contractErrs, "contract-stale: the loops of this function cannot be matched to its loop statements")
		return out
	}
	if fr.contract != nil {
		m := fr.loopAssignment()
		co, ok := m[li.ordinal]
		if !ok {
			return out // a loop the contract does not talk about (added since it was written): automatic invariants only
		}
		if co != li.ordinal {
			li.cord, li.cordSet = co, true
			fr.e.note("approx", fmt.Sprintf("loop %d of the source is loop %d of the contract (matched by header text)", li.ordinal, co))
		}
		for _, c := range fr.contract.LoopInv[co] {
			out = append(out, invClause{label: c.label, expr: c.expr})
		}
	}
	return out
}

// loopAssignment maps the loops of the source (by ordinal) to the loops the contract talks about. Loops are
// matched by their header text first (so that loops added or removed elsewhere in the function do not shift the
// contract), then -- for the loops left over on both sides, in order -- by the shape of the header with identifiers
// blanked (a renamed loop variable). A contract loop that finds no source loop makes the contract stale.
func (fr *Frame) loopAssignment() map[int]int {
	if fr.loopAssign != nil {
		return fr.loopAssign
	}
	norm := func(s string) string { return strings.Join(strings.Fields(s), " ") }
	m := map[int]int{}
	fr.loopAssign = m
	c := fr.contract
	var cords []int
	seen := map[int]bool{}
	for o := range c.LoopFinger {
		cords = append(cords, o)
		seen[o] = true
	}
	for o := range c.LoopInv {
		if !seen[o] {
			cords = append(cords, o)
		}
	}
	sort.Ints(cords)
	usedSrc := map[int]bool{}
	usedC := map[int]bool{}
	src := map[int]*loopInfo{}
	var sords []int
	for _, l := range fr.loopList {
		src[l.ordinal] = l
		sords = append(sords, l.ordinal)
	}
	sort.Ints(sords)
	// contract loops without a fingerprint: by ordinal
	for _, co := range cords {
		if _, has := c.LoopFinger[co]; !has {
			if _, ok := src[co]; ok {
				m[co] = co
				usedSrc[co], usedC[co] = true, true
			}
		}
	}
	// 1. exact header text, same ordinal first
	for _, co := range cords {
		if usedC[co] {
			continue
		}
		if l, ok := src[co]; ok && !usedSrc[co] && (l.finger == "" || l.finger == norm(c.LoopFinger[co])) {
			m[co] = co
			usedSrc[co], usedC[co] = true, true
		}
	}
	for _, co := range cords {
		if usedC[co] {
			continue
		}
		cand, n := -1, 0
		for _, so := range sords {
			if !usedSrc[so] && src[so].finger == norm(c.LoopFinger[co]) {
				cand = so
				n++
			}
		}
		if n == 1 {
			m[cand] = co
			usedSrc[cand], usedC[co] = true, true
		}
	}
	// 2. what is left, in order, by shape
	var restC, restS []int
	for _, co := range cords {
		if !usedC[co] {
			restC = append(restC, co)
		}
	}
	for _, so := range sords {
		if !usedSrc[so] {
			restS = append(restS, so)
		}
	}
	si := 0
	for _, co := range restC {
		found := false
		for si < len(restS) {
			so := restS[si]
			si++
			if fingerShape(c.LoopFinger[co]) == fingerShape(src[so].finger) {
				m[so] = co
				found = true
				fr.e.note("approx", fmt.Sprintf("loop %d header differs from the contract's fingerprint in identifiers only (renamed variable): matched by position", so))
				break
			}
		}
		if !found {
			fr.e.contractErrs = append(fr.e.contractErrs, fmt.Sprintf("contract-stale: loop %d %q of the contract has no matching loop in the source", co, c.LoopFinger[co]))
		}
	}
	return m
}

type autoRange struct {
	phi *ssa.Phi
	ln  ssa.Value
}

func (fr *Frame) rangeLen(li *loopInfo, phi *ssa.Phi) ssa.Value {
	for _, in := range li.header.Instrs {
		if b, ok := in.(*ssa.BinOp); ok && b.Op.String() == "<" {
			if add, ok := b.X.(*ssa.BinOp); ok && add.X == phi {
				return b.Y
			}
		}
	}
	return nil
}

func (fr *Frame) rangeKeyName(li *loopInfo) string {
	if li.stmt == nil {
		return ""
	}
	return rangeKeyOf(li.stmt)
}

// evalSum: sum v in [lo,hi) :: body. The sum is an uninterpreted function of its upper bound (and of the
// enclosing quantified variables occurring in the body), identified by the text of lo and body; each evaluation
// adds the one-step unfolding at the evaluated bound.
func (e *Engine) evalSum(y *EQuant, env *evalEnv, bv string, body Val) Val {
	if y.Lo == nil {
		return e.evalErr("sum needs a range")
	}
	lo, hi := e.eval(y.Lo, env), e.eval(y.Hi, env)
	// free quantified variables of the enclosing scopes
	type prm struct{ name, sort string }
	var prms []prm
	var names []string
	for n := range env.bound {
		names = append(names, n)
	}
	sort.Strings(names)
	for _, n := range names {
		v := env.bound[n]
		if n == y.Var || !isBoundVarName(v.S) {
			continue
		}
		if hasToken(body.S, v.S) || hasToken(lo.S, v.S) {
			srt := "Int"
			if v.T != nil {
				switch {
				case v.T == addrT:
					srt = "Addr"
				case v.T == bvT:
					srt = "BV"
				case kindOf(v.T) == kStr:
					srt = "Str"
				case kindOf(v.T) == kBool:
					srt = "Bool"
				}
			}
			prms = append(prms, prm{v.S, srt})
		}
	}
	canon := replaceToken(body.S, bv, "%v") + "|" + lo.S
	for i, p := range prms {
		canon = replaceToken(canon, p.name, fmt.Sprintf("%%p%d", i))
	}
	fn, ok := e.sumFns[canon]
	var pnames, psorts, pdecl []string
	for _, p := range prms {
		pnames = append(pnames, p.name)
		psorts = append(psorts, p.sort)
		pdecl = append(pdecl, fmt.Sprintf("(%s %s)", p.name, p.sort))
	}
	call := func(up string) string { return app(fn, append([]string{up}, pnames...)...) }
	quant := func(f, pat string) string {
		if len(prms) == 0 {
			return f
		}
		return fmt.Sprintf("(forall (%s) (! %s :pattern (%s)))", strings.Join(pdecl, " "), f, pat)
	}
	if !ok {
		fn = fmt.Sprintf("sumfn_%d", len(e.sumFns)+1)
		e.sumFns[canon] = fn
		e.vc.declFun(fn, append([]string{"Int"}, psorts...), "Int")
		if !hasAnyToken(lo.S, pnames) && !strings.Contains(lo.S, "!") {
			e.vc.declSort("(assert " + quant(eq(call(lo.S), "0"), call(lo.S)) + ")")
		} else {
			e.vc.assume(quant(eq(call(lo.S), "0"), call(lo.S)))
		}
	}
	// congruence lemma (valid for any two sums over the same range start, by induction on n): if the summands
	// agree on [lo, n) the sums agree. Emitted between the instances of one contract sum expression evaluated
	// in different program states (e.g. a slice before and after an unrelated append), once per block that uses it.
	if rc := e.prog.Contracts[e.rootKey]; len(prms) == 0 && rc != nil && rc.Uses["sum_congruence"] {
		if e.sumByExpr == nil {
			e.sumByExpr = map[*EQuant][]sumInst{}
			e.congDone = map[string]bool{}
		}
		tmpl := replaceToken(body.S, bv, "%v")
		known := false
		for _, o := range e.sumByExpr[y] {
			if o.fn == fn {
				known = true
				continue
			}
			if o.lo != lo.S {
				continue
			}
			a, b := o.fn, fn
			if a > b {
				a, b = b, a
			}
			key := fmt.Sprintf("%s|%s|%d", a, b, e.vc.curTag)
			if e.congDone[key] {
				continue
			}
			e.congDone[key] = true
			e.qn++
			jv := fmt.Sprintf("cj_q%d", e.qn)
			b1 := strings.ReplaceAll(o.tmpl, "%v", jv)
			b2 := strings.ReplaceAll(tmpl, "%v", jv)
			e.vc.assume(fmt.Sprintf("(forall ((cn Int)) (! (=> (forall ((%s Int)) (=> (and (<= %s %s) (< %s cn)) (= %s %s))) (= (%s cn) (%s cn))) :pattern ((%s cn) (%s cn))))",
				jv, lo.S, jv, jv, b1, b2, o.fn, fn, o.fn, fn))
		}
		if !known {
			e.sumByExpr[y] = append(e.sumByExpr[y], sumInst{fn: fn, tmpl: tmpl, lo: lo.S})
		}
	}
	// the same lemma between an instance of the sum under an enclosing quantifier (sum j :: (sum m :: f(m, j)), a
	// function of its bound and of j) and a ground instance of the same contract expression (the inner sum for one
	// particular j): if f(m, J) and the ground summand agree on [lo, n) the two sums agree at n
	if rc := e.prog.Contracts[e.rootKey]; rc != nil && rc.Uses["sum_congruence"] && len(prms) <= 1 && (len(prms) == 0 || prms[0].sort == "Int") {
		if e.sumByExprP == nil {
			e.sumByExprP = map[*EQuant][]sumInst{}
			e.sumByExprG = map[*EQuant][]sumInst{}
		}
		if e.congDone == nil {
			e.congDone = map[string]bool{}
		}
		tmpl := replaceToken(body.S, bv, "%v")
		cross := func(pi, gi sumInst) {
			if pi.lo != gi.lo {
				return
			}
			key := fmt.Sprintf("X|%s|%s|%d", pi.fn, gi.fn, e.vc.curTag)
			if e.congDone[key] {
				return
			}
			e.congDone[key] = true
			e.qn++
			jv := fmt.Sprintf("cj_q%d", e.qn)
			xv := fmt.Sprintf("cx_q%d", e.qn)
			b1 := strings.ReplaceAll(strings.ReplaceAll(pi.tmpl, "%v", jv), "%p", xv)
			b2 := strings.ReplaceAll(gi.tmpl, "%v", jv)
			e.vc.assume(fmt.Sprintf("(forall ((cn Int) (%s Int)) (! (=> (forall ((%s Int)) (=> (and (<= %s %s) (< %s cn)) (= %s %s))) (= (%s cn %s) (%s cn))) :pattern ((%s cn %s) (%s cn))))",
				xv, jv, pi.lo, jv, jv, b1, b2, pi.fn, xv, gi.fn, pi.fn, xv, gi.fn))
		}
		if len(prms) == 1 {
			inst := sumInst{fn: fn, tmpl: replaceToken(tmpl, prms[0].name, "%p"), lo: lo.S}
			seen := false
			for _, o := range e.sumByExprP[y] {
				if o.fn == fn {
					seen = true
				}
			}
			if !seen && !hasToken(lo.S, prms[0].name) {
				e.sumByExprP[y] = append(e.sumByExprP[y], inst)
			}
			for _, g := range e.sumByExprG[y] {
				cross(inst, g)
			}
		} else {
			inst := sumInst{fn: fn, tmpl: tmpl, lo: lo.S}
			seen := false
			for _, o := range e.sumByExprG[y] {
				if o.fn == fn {
					seen = true
				}
			}
			if !seen {
				e.sumByExprG[y] = append(e.sumByExprG[y], inst)
			}
			for _, pi := range e.sumByExprP[y] {
				cross(pi, inst)
			}
		}
	}
	at := func(t string) string { return replaceToken(body.S, bv, t) }
	h := hi.S
	var allBound []string
	for _, n := range names {
		if v := env.bound[n]; isBoundVarName(v.S) {
			allBound = append(allBound, v.S)
		}
	}
	if hasAnyToken(h, pnames) || hasAnyToken(h, allBound) {
		// the bound itself depends on quantified variables: unfold inside the quantifier is not possible; no facts
		return Val{S: call(h), T: specInt}
	}
	// a sum over a slice that was sorted in place equals the same sum over the slice before sorting
	// (sum over a permutation; trusted lemma attached to the sort specification)
	for _, sp := range e.sortPerms {
		if h != sp.n || lo.S != "0" || !hasToken(body.S, sp.post) || len(prms) > 0 {
			continue
		}
		oldBody := replaceToken(body.S, sp.post, sp.pre)
		oc := replaceToken(oldBody, bv, "%v") + "|" + lo.S
		ofn, ok := e.sumFns[oc]
		if !ok {
			ofn = fmt.Sprintf("sumfn_%d", len(e.sumFns)+1)
			e.sumFns[oc] = ofn
			e.vc.declFun(ofn, []string{"Int"}, "Int")
			e.vc.declSort("(assert " + eq(app(ofn, lo.S), "0") + ")")
		}
		e.vc.assume(eq(call(h), app(ofn, h)))
		e.note("approx", "trusted lemma: a sum over a slice sorted in place equals the sum over the slice before sorting")
	}
	prev := app("-", h, "1")
	e.vc.assume(quant(implies(app("<=", h, lo.S), eq(call(h), "0")), call(h)))
	e.vc.assume(quant(implies(app(">", h, lo.S), eq(call(h), app("+", call(prev), at(prev)))), call(h)))
	return Val{S: call(h), T: specInt}
}

type sumInst struct{ fn, tmpl, lo string }

func isBoundVarName(s string) bool {
	i := strings.LastIndex(s, "_q")
	if i < 0 {
		return false
	}
	for _, c := range s[i+2:] {
		if c < '0' || c > '9' {
			return false
		}
	}
	return len(s) > i+2
}

func hasToken(s, tok string) bool { return replaceToken(s, tok, "\x00") != s }

func hasAnyToken(s string, toks []string) bool {
	for _, t := range toks {
		if hasToken(s, t) {
			return true
		}
	}
	return false
}

func replaceToken(s, tok, with string) string {
	var b strings.Builder
	i := 0
	for i < len(s) {
		j := strings.Index(s[i:], tok)
		if j < 0 {
			b.WriteString(s[i:])
			break
		}
		j += i
		end := j + len(tok)
		okL := j == 0 || s[j-1] == '(' || s[j-1] == ' '
		okR := end == len(s) || s[end] == ')' || s[end] == ' '
		b.WriteString(s[i:j])
		if okL && okR {
			b.WriteString(with)
		} else {
			b.WriteString(tok)
		}
		i = end
	}
	return b.String()
}

// pkgConst resolves "pkg.Const" (package name as imported by the function under verification, or its own
// package's constants unqualified) to the constant's value.
func (e *Engine) pkgConst(name string) (Val, bool) {
	pkgName, cname := "", name
	if i := strings.Index(name, "."); i >= 0 {
		pkgName, cname = name[:i], name[i+1:]
		if strings.Contains(cname, ".") {
			return Val{}, false
		}
	}
	var own *types.Package
	if e.root.Pkg != nil {
		own = e.root.Pkg.Pkg
	} else if o := e.root.Origin(); o != nil && o.Pkg != nil {
		own = o.Pkg.Pkg
	}
	if own == nil {
		return Val{}, false
	}
	var cands []*types.Package
	if pkgName == "" {
		cands = []*types.Package{own}
	} else {
		for _, imp := range own.Imports() {
			if imp.Name() == pkgName || strings.HasSuffix(imp.Path(), "/"+pkgName) {
				cands = append(cands, imp)
			}
		}
		// import aliases are not visible in go/types; fall back to any loaded repo package with a matching constant
		if len(cands) == 0 {
			for _, p := range e.prog.Pkgs {
				if p.Types != nil && strings.HasPrefix(p.PkgPath, modPath) && p.Types.Scope().Lookup(cname) != nil {
					cands = append(cands, p.Types)
				}
			}
		}
	}
	for _, p := range cands {
		if o, ok := p.Scope().Lookup(cname).(*types.Const); ok {
			c := ssa.NewConst(o.Val(), o.Type())
			v := e.constVal(c)
			return v, true
		}
	}
	// import aliases (e.g. layertypes): search imports for the constant by name only
	if pkgName != "" {
		var found *types.Const
		n := 0
		for _, imp := range own.Imports() {
			if o, ok := imp.Scope().Lookup(cname).(*types.Const); ok && strings.HasPrefix(imp.Path(), modPath) {
				found = o
				n++
			}
		}
		if n == 1 {
			return e.constVal(ssa.NewConst(found.Val(), found.Type())), true
		}
	}
	return Val{}, false
}
