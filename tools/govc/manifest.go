package main

import (
	"encoding/json"
	"fmt"
	"os"
	"os/exec"
	"path/filepath"
	"sort"
	"strings"
)

// all property ids of /verif/properties.jsonl
var allProps = []string{"C01", "C02", "C03", "C04", "C05", "C06", "C07", "C08", "C09", "C10", "C11", "C12", "C13", "C14", "C15", "C16", "C17", "C18", "C19", "C20"}

// reasons for properties that are not (yet) claimed
var notApplicable = map[string]string{}

func cmdManifest() {
	hookCommits := []string{}
	out, err := exec.Command("git", "-C", repoDir, "log", "--format=%H %s").Output()
	if err == nil {
		for _, ln := range strings.Split(strings.TrimSpace(string(out)), "\n") {
			if strings.Contains(ln, "verif:") {
				hookCommits = append(hookCommits, strings.Fields(ln)[0])
			}
		}
	}
	baselineOff := `for m in $(cat /w/out/gomods.txt); do MF=$(cd /repo/$m && . /w/out/goenv.sh && gomodflag); (cd /repo/$m && go test $MF -json -vet=off -count=1 -timeout 25m ./...); done`
	var checks []map[string]any
	var ids []string
	for id := range propDefs {
		ids = append(ids, id)
	}
	sort.Strings(ids)
	for _, id := range ids {
		d := propDefs[id]
		var fns []string
		for _, f := range d.Funcs {
			fns = append(fns, f.Key)
		}
		text := d.LevelText
		if text == "" {
			text = "Every contract clause, loop invariant, call precondition and automatic safety condition of the functions under contract is an SMT obligation generated from the go/ssa form of /repo's current source and discharged for all inputs (no bound); a change that breaks a clause fails that named obligation."
		}
		note := d.LevelNote
		if note == "" {
			note = "Trusted: the VC generator (govc), the SMT solvers, the library specifications in tools/govc/specs*.go; clauses listed under not_decided_clauses in the evidence are not claimed."
		}
		tech := d.Technique
		if tech == "" {
			tech = "contract-based deductive verification: weakest-precondition style VCs over go/ssa, contracts as //@ comments in verif-tagged files, discharged by z3/cvc5"
		}
		checks = append(checks, map[string]any{
			"property_id":         id,
			"quick_cmd":           "./bin/govc check " + id + " --tier quick",
			"thorough_cmd":        "./bin/govc check " + id + " --tier thorough",
			"evidence_file":       "/verif/evidence/" + id + ".json",
			"replay_cmd_template": "./bin/govc replay {path}",
			"engine":              "govc",
			"level_claimed":       map[string]any{"category": "proof", "text": text, "design_ref": "DESIGN.md section 5 (" + id + ")"},
			"level_note":          note,
			"technique":           tech,
		})
	}
	var na []map[string]string
	for _, id := range allProps {
		if _, ok := propDefs[id]; ok {
			continue
		}
		r := notApplicable[id]
		if r == "" {
			r = "not yet brought under contract by this framework (work in progress); no claim is made"
		}
		na = append(na, map[string]string{"property_id": id, "reason": r})
	}
	if na == nil {
		na = []map[string]string{}
	}
	m := map[string]any{
		"version":   1,
		"setup_cmd": "cd /verif/tools/govc && GOFLAGS=-mod=vendor GOPROXY=off GOSUMDB=off GOTOOLCHAIN=local go build -o /verif/bin/govc .",
		"hooks": map[string]any{
			"guard":            "verif",
			"enable":           "go build tag: -tags verif (comment-only contract files zz_contracts_verif.go; no executable hooks)",
			"baseline_off_cmd": baselineOff,
			"source_commits":   hookCommits,
			"add_only":         true,
		},
		"engines": []map[string]any{{
			"name":              "govc",
			"path":              "/verif/tools/govc",
			"serves_properties": ids,
			"kind_free_text":    "verification-condition generator for Go (go/ssa -> SMT-LIB), contracts as structured comments, z3/cvc5 back ends",
		}},
		"checks":         checks,
		"not_applicable": na,
		"notes":          "All checks rebuild their VCs from /repo's working tree on every run. Exit 1 + VIOLATION line only when an obligation that is part of the committed baseline fails or can no longer be proved, or a new contract obligation has a counterexample.",
	}
	b, _ := json.MarshalIndent(m, "", " ")
	os.WriteFile(filepath.Join(verifDir, "MANIFEST.json"), append(b, '\n'), 0o644)
	fmt.Println("wrote MANIFEST.json:", len(checks), "checks,", len(na), "not applicable")
}
