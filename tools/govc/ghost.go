package main

// Ghost state: the chain substrate (collections stores, bank balances and supply) as named heaps
// "G_<module>_<Field>_v / _d" (DESIGN §3). All specs here are trusted (T3, T6).

import (
	"fmt"
	"sort"
	"go/token"
	"go/types"
	"strings"

	"golang.org/x/tools/go/ssa"
)

// seqT marks abstract integer sequences in contract expressions.
var seqT = types.NewNamed(types.NewTypeName(0, nil, "specseq", nil), types.Typ[types.Int64], nil)

type ghostRef struct {
	name  string // base name: G_<mod>_<Field>
	kind  string // map | item | seq
	kt    types.Type
	vt    types.Type
	ksort string
	vsort string
}

const collPkg = "cosmossdk.io/collections"

func (e *Engine) registerGhosts(st *State) {
	e.declAddr()
	e.heapSorts["G_bank_bal"] = "(Array Addr Int)"
	e.heapSorts["G_bank_supply"] = "Int"
	e.initHeap("G_bank_bal", "(Array Addr Int)")
	e.initHeap("G_bank_supply", "Int")
	e.heapSorts["G_staking_bonded"] = "Int"
	e.initHeap("G_staking_bonded", "Int")
	e.heapSorts["G_staking_epoch"] = "Int"
	e.initHeap("G_staking_epoch", "Int")
	if vt := e.prog.lookupType(stakingT + ".Validator"); vt != nil {
		g := &ghostRef{name: "G_staking_validators", kind: "map", kt: types.NewSlice(types.Typ[types.Uint8]), vt: vt, ksort: "BV", vsort: e.vc.sortOf(vt)}
		e.ghosts[g.name] = g
		e.declGhost(g)
	}
	e.vc.assume(app(">=", e.heapInit["G_staking_bonded"], "0"))
	// every collections field of every keeper struct in /repo
	for _, pkg := range e.prog.Pkgs {
		if !strings.HasPrefix(pkg.PkgPath, modPath+"/x/") || !strings.HasSuffix(pkg.PkgPath, "/keeper") {
			continue
		}
		obj := pkg.Types.Scope().Lookup("Keeper")
		if obj == nil {
			continue
		}
		st, ok := obj.Type().Underlying().(*types.Struct)
		if !ok {
			continue
		}
		mod := strings.Split(strings.TrimPrefix(pkg.PkgPath, modPath+"/x/"), "/")[0]
		for i := 0; i < st.NumFields(); i++ {
			f := st.Field(i)
			if g := e.ghostForType(mod, f.Name(), f.Type()); g != nil {
				e.ghosts[g.name] = g
				e.declGhost(g)
			}
		}
	}
}

func (e *Engine) declAddr() {
	e.vc.declSort("(declare-sort BV 0)")
	e.vc.declSort("(declare-sort Addr 0)")
	e.vc.declFun("bv_of", []string{"(Array Int Int)", "Int", "Int"}, "BV")
	e.vc.declFun("bv_len", []string{"BV"}, "Int")
	e.vc.declFun("addr_mod", []string{"Str"}, "Addr")
	e.vc.declFun("addr_acc", []string{"BV"}, "Addr")
	e.vc.declFun("mod_of", []string{"Addr"}, "Str")
	e.vc.declSort("(assert (forall ((s Str)) (! (= (mod_of (addr_mod s)) s) :pattern ((addr_mod s)))))")
	e.vc.declSort("(assert (forall ((a (Array Int Int)) (o Int) (n Int)) (! (= (bv_len (bv_of a o n)) n) :pattern ((bv_of a o n)))))")
}

func collKind(t types.Type) (kind string, targs *types.TypeList) {
	t = types.Unalias(t)
	if p, ok := t.(*types.Pointer); ok {
		t = types.Unalias(p.Elem())
	}
	n, ok := t.(*types.Named)
	if !ok || n.Obj().Pkg() == nil {
		return "", nil
	}
	path := n.Obj().Pkg().Path()
	if path != collPkg && path != collPkg+"/indexes" {
		return "", nil
	}
	switch n.Obj().Name() {
	case "Map":
		return "map", n.TypeArgs()
	case "IndexedMap":
		return "map", n.TypeArgs()
	case "Item":
		return "item", n.TypeArgs()
	case "Sequence":
		return "seq", nil
	case "KeySet":
		return "keyset", n.TypeArgs()
	}
	return "", nil
}

func (e *Engine) ghostForType(mod, field string, t types.Type) *ghostRef {
	kind, targs := collKind(t)
	if kind == "" {
		return nil
	}
	g := &ghostRef{name: "G_" + mod + "_" + field, kind: kind}
	switch kind {
	case "map":
		g.kt, g.vt = targs.At(0), targs.At(1)
		g.ksort, g.vsort = e.keySort(g.kt), e.vc.sortOf(g.vt)
	case "keyset":
		g.kind = "map"
		g.kt, g.vt = targs.At(0), types.Typ[types.Bool]
		g.ksort, g.vsort = e.keySort(g.kt), "Bool"
	case "item":
		g.vt = targs.At(0)
		g.vsort = e.vc.sortOf(g.vt)
	case "seq":
		g.vt = types.Typ[types.Uint64]
		g.vsort = "Int"
	}
	return g
}

func (e *Engine) declGhost(g *ghostRef) {
	switch g.kind {
	case "map":
		e.heapSorts[g.name+"_v"] = fmt.Sprintf("(Array %s %s)", g.ksort, g.vsort)
		e.heapSorts[g.name+"_d"] = fmt.Sprintf("(Array %s Bool)", g.ksort)
	case "item":
		e.heapSorts[g.name+"_v"] = g.vsort
		e.heapSorts[g.name+"_d"] = "Bool"
	case "seq":
		e.heapSorts[g.name+"_v"] = "Int"
	}
	for _, suf := range []string{"_v", "_d"} {
		if s, ok := e.heapSorts[g.name+suf]; ok {
			e.initHeap(g.name+suf, s)
		}
	}
}

func isByteSlice(t types.Type) bool {
	sl, ok := types.Unalias(t).Underlying().(*types.Slice)
	if !ok {
		return false
	}
	b, ok := types.Unalias(sl.Elem()).Underlying().(*types.Basic)
	return ok && b.Kind() == types.Uint8
}

func pairArgs(t types.Type) (name string, targs *types.TypeList) {
	n, ok := types.Unalias(t).(*types.Named)
	if !ok || n.Obj().Pkg() == nil || n.Obj().Pkg().Path() != collPkg {
		return "", nil
	}
	if n.Obj().Name() == "Pair" || n.Obj().Name() == "Triple" {
		return n.Obj().Name(), n.TypeArgs()
	}
	return "", nil
}

func (e *Engine) keySort(t types.Type) string { return e.vc.keySort(t) }

// keyTerm converts a Go value into its store-key term.
func (e *Engine) keyTerm(st *State, v Val) string {
	if isByteSlice(v.T) {
		if strings.HasPrefix(v.S, "(slice_of_bv ") {
			return strings.TrimSuffix(strings.TrimPrefix(v.S, "(slice_of_bv "), ")") // pure-term mode: content of a key component
		}
		return e.bvOf(st, v)
	}
	return v.S
}

func (e *Engine) bvOf(st *State, v Val) string {
	sl := types.Unalias(v.T).Underlying().(*types.Slice)
	hn, hs := e.vc.arrHeapName(sl.Elem())
	return app("bv_of", app("select", e.heap(st, hn, hs), app("sptr", v.S)), app("soff", v.S), app("slen", v.S))
}

// ghostOfValue traces the receiver of a collections call back to the keeper field it was read from.
func (e *Engine) ghostOfValue(v ssa.Value) *ghostRef {
	for i := 0; i < 8; i++ {
		switch x := v.(type) {
		case *ssa.UnOp:
			if x.Op == token.MUL {
				v = x.X
				continue
			}
		case *ssa.FieldAddr:
			pt, ok := types.Unalias(x.X.Type()).Underlying().(*types.Pointer)
			if !ok {
				return nil
			}
			return e.ghostOfField(pt.Elem(), x.Field)
		case *ssa.Field:
			return e.ghostOfField(x.X.Type(), x.Field)
		case *ssa.ChangeType:
			v = x.X
			continue
		case *ssa.MakeInterface:
			v = x.X
			continue
		}
		break
	}
	return nil
}

func (e *Engine) ghostOfField(structT types.Type, field int) *ghostRef {
	np := namedPath(structT)
	if !strings.HasPrefix(np, modPath+"/x/") || !strings.HasSuffix(np, "/keeper.Keeper") {
		return nil
	}
	mod := strings.Split(strings.TrimPrefix(np, modPath+"/x/"), "/")[0]
	st := types.Unalias(structT).Underlying().(*types.Struct)
	return e.ghosts["G_"+mod+"_"+st.Field(field).Name()]
}

// ---------- collections specs ----------

func init() {
	m := "(" + collPkg + ".Map[K, V])."
	im := "(*" + collPkg + ".IndexedMap[PrimaryKey, Value, Idx])."
	it := "(" + collPkg + ".Item[V])."
	sq := "(" + collPkg + ".Sequence)."
	ks := "(" + collPkg + ".KeySet[K])."
	for _, p := range []string{m, im} {
		libSpecs[p+"Get"] = func(c *callCtx) Val { return collGet(c, true) }
		libSpecs[p+"Set"] = func(c *callCtx) Val { return collSet(c, true) }
		libSpecs[p+"Has"] = func(c *callCtx) Val { return collHas(c) }
		libSpecs[p+"Remove"] = func(c *callCtx) Val { return collRemove(c) }
		libMods[p+"Set"] = collMods
		libMods[p+"Remove"] = collMods
	}
	libSpecs[ks+"Has"] = func(c *callCtx) Val { return collHas(c) }
	libSpecs[ks+"Set"] = func(c *callCtx) Val { return collSet(c, false) }
	libSpecs[ks+"Remove"] = func(c *callCtx) Val { return collRemove(c) }
	libMods[ks+"Set"] = collMods
	libMods[ks+"Remove"] = collMods
	libSpecs[it+"Get"] = func(c *callCtx) Val { return collGet(c, false) }
	libSpecs[it+"Set"] = func(c *callCtx) Val { return collSet(c, false) }
	libSpecs[it+"Has"] = func(c *callCtx) Val { return collHas(c) }
	libSpecs[it+"Remove"] = func(c *callCtx) Val { return collRemove(c) }
	libMods[it+"Set"] = collMods
	libMods[it+"Remove"] = collMods
	libSpecs[sq+"Peek"] = func(c *callCtx) Val {
		g := c.e().ghostOfValue(c.common.Args[0])
		if g == nil {
			return c.fr.havocCall(c, true)
		}
		cur := c.e().heap(c.st, g.name+"_v", "Int")
		c.e().assumeIn(c.st, and(app("<=", "0", cur), app("<", cur, "18446744073709551616"))) // stored as uint64
		return c.tuple(cur, "iface_nil")
	}
	libSpecs[sq+"Next"] = func(c *callCtx) Val {
		e := c.e()
		g := e.ghostOfValue(c.common.Args[0])
		if g == nil {
			return c.fr.havocCall(c, true)
		}
		cur := e.heap(c.st, g.name+"_v", "Int")
		e.assumeIn(c.st, and(app("<=", "0", cur), app("<", cur, "18446744073709551616"))) // stored as uint64
		e.setHeap(c.st, g.name+"_v", "Int", app("+", cur, "1"))
		return c.tuple(cur, "iface_nil")
	}
	libSpecs[sq+"Set"] = func(c *callCtx) Val {
		e := c.e()
		g := e.ghostOfValue(c.common.Args[0])
		if g == nil {
			return c.fr.havocCall(c, true)
		}
		e.setHeap(c.st, g.name+"_v", "Int", c.args[2].S)
		return c.ret("iface_nil")
	}
	libMods[sq+"Next"] = collMods
	libMods[sq+"Set"] = collMods
	// keys
	libSpecs[collPkg+".Join"] = func(c *callCtx) Val {
		e := c.e()
		srt := e.vc.sortOf(c.rt)
		return c.def("pair", app("mk_"+srt, e.keyTerm(c.st, c.args[0]), e.keyTerm(c.st, c.args[1])))
	}
	libSpecs[collPkg+".Join3"] = func(c *callCtx) Val {
		e := c.e()
		srt := e.vc.sortOf(c.rt)
		return c.def("triple", app("mk_"+srt, e.keyTerm(c.st, c.args[0]), e.keyTerm(c.st, c.args[1]), e.keyTerm(c.st, c.args[2])))
	}
}

func collMods(e *Engine, cc *ssa.CallCommon) []string {
	g := e.ghostOfValue(cc.Args[0])
	if g == nil {
		return []string{"G_*"}
	}
	return []string{g.name + "_v", g.name + "_d"}
}

func (e *Engine) notFoundErr() string {
	e.vc.declSort("(declare-const err_notfound Iface)")
	e.vc.declFun("errors_is", []string{"Iface", "Iface"}, "Bool")
	e.vc.declSort("(assert (not (= err_notfound iface_nil)))")
	return "err_notfound"
}

func collGet(c *callCtx, keyed bool) Val {
	e := c.e()
	g := e.ghostOfValue(c.common.Args[0])
	if g == nil {
		e.note("unmodelled", "collections Get on untraceable receiver in "+c.fr.fn.Name())
		return c.fr.havocCall(c, false)
	}
	var dom, val string
	if keyed {
		k := e.keyTerm(c.st, c.args[2])
		dom = app("select", e.heap(c.st, g.name+"_d", e.heapSorts[g.name+"_d"]), k)
		val = app("select", e.heap(c.st, g.name+"_v", e.heapSorts[g.name+"_v"]), k)
	} else {
		dom = e.heap(c.st, g.name+"_d", "Bool")
		val = e.heap(c.st, g.name+"_v", g.vsort)
	}
	d := e.vc.define("has", "Bool", dom)
	v := e.vc.define("got", g.vsort, ite(d, val, e.zero(g.vt)))
	e.assumeIn(c.st, and(e.typeInv(v, g.vt), e.allocInv(c.st, v, g.vt)))
	nf := e.notFoundErr()
	// the error of a missing key is (a wrapping of) collections.ErrNotFound
	er := e.vc.fresh("geterr", "Iface")
	e.vc.assume(and(not(eq(er, "iface_nil")), app("errors_is", er, nf)))
	return c.tuple(v, ite(d, "iface_nil", er))
}

func collSet(c *callCtx, keyed bool) Val {
	e := c.e()
	g := e.ghostOfValue(c.common.Args[0])
	if g == nil {
		e.note("unmodelled", "collections Set on untraceable receiver in "+c.fr.fn.Name())
		return c.fr.havocCall(c, true)
	}
	if g.kind == "map" && len(c.args) >= 3 {
		k := e.keyTerm(c.st, c.args[2])
		dn, vn := g.name+"_d", g.name+"_v"
		dOld := e.heap(c.st, dn, e.heapSorts[dn])
		e.setHeap(c.st, dn, e.heapSorts[dn], app("store", dOld, k, "true"))
		{
			// ghost cardinality: one more key unless it was present
			e.assumeIn(c.st, eq(e.card(g, e.heap(c.st, dn, e.heapSorts[dn])), app("+", e.card(g, dOld), ite(app("select", dOld, k), "0", "1"))))
			e.assumeIn(c.st, app(">=", e.card(g, e.heap(c.st, dn, e.heapSorts[dn])), "1")) // it holds k
		}
		if len(c.args) >= 4 {
			e.setHeap(c.st, vn, e.heapSorts[vn], app("store", e.heap(c.st, vn, e.heapSorts[vn]), k, c.args[3].S))
		} else {
			e.setHeap(c.st, vn, e.heapSorts[vn], app("store", e.heap(c.st, vn, e.heapSorts[vn]), k, "true"))
		}
	} else {
		e.setHeap(c.st, g.name+"_d", "Bool", "true")
		e.setHeap(c.st, g.name+"_v", g.vsort, c.args[2].S)
	}
	return c.ret("iface_nil")
}

func collHas(c *callCtx) Val {
	e := c.e()
	g := e.ghostOfValue(c.common.Args[0])
	if g == nil {
		return c.fr.havocCall(c, false)
	}
	var dom string
	if g.kind == "map" {
		dom = app("select", e.heap(c.st, g.name+"_d", e.heapSorts[g.name+"_d"]), e.keyTerm(c.st, c.args[2]))
	} else {
		dom = e.heap(c.st, g.name+"_d", "Bool")
	}
	return c.tuple(e.vc.define("has", "Bool", dom), "iface_nil")
}

func collRemove(c *callCtx) Val {
	e := c.e()
	g := e.ghostOfValue(c.common.Args[0])
	if g == nil {
		return c.fr.havocCall(c, true)
	}
	if g.kind == "map" {
		dn := g.name + "_d"
		dOld := e.heap(c.st, dn, e.heapSorts[dn])
		k := e.keyTerm(c.st, c.args[2])
		e.setHeap(c.st, dn, e.heapSorts[dn], app("store", dOld, k, "false"))
		{
			e.assumeIn(c.st, eq(e.card(g, e.heap(c.st, dn, e.heapSorts[dn])), app("-", e.card(g, dOld), ite(app("select", dOld, k), "1", "0"))))
		}
	} else {
		e.setHeap(c.st, g.name+"_d", "Bool", "false")
	}
	return c.ret("iface_nil")
}

// ---------- bank ----------

// coinsTotal: amount of the (single-denom) coin set.
func (e *Engine) coinsTotal(st *State, coins Val) string {
	sl := types.Unalias(coins.T).Underlying().(*types.Slice)
	hn, hs := e.vc.arrHeapName(sl.Elem())
	ss := e.vc.structInfo(sl.Elem())
	c0 := app("select", app("select", e.heap(st, hn, hs), app("sptr", coins.S)), app("idx", app("soff", coins.S), "0"))
	e.vc.declFun("coins_total_n", []string{"Slice"}, "Int")
	n := app("slen", coins.S)
	t := e.vc.define("coins", "Int", ite(eq(n, "0"), "0", ite(eq(n, "1"), app(ss.fields[1], c0), app("coins_total_n", coins.S))))
	e.assumeIn(st, app(">=", t, "0"))
	return t
}

func (e *Engine) accAddr(st *State, v Val) string  { return app("addr_acc", e.bvOf(st, v)) }
func (e *Engine) modAddr(v Val) string              { return app("addr_mod", v.S) }
func (e *Engine) bankBal(st *State) string          { return e.heap(st, "G_bank_bal", "(Array Addr Int)") }
func (e *Engine) setBankBal(st *State, t string)    { e.setHeap(st, "G_bank_bal", "(Array Addr Int)", t) }
func (e *Engine) bankSupply(st *State) string       { return e.heap(st, "G_bank_supply", "Int") }
func (e *Engine) setBankSupply(st *State, t string) { e.setHeap(st, "G_bank_supply", "Int", t) }

// transfer: err == nil <=> bal[from] >= amt; on success amt moves from -> to.
func (e *Engine) bankTransfer(c *callCtx, from, to, amt string) Val {
	st := c.st
	bal := e.bankBal(st)
	ok := e.vc.define("bank_ok", "Bool", app(">=", app("select", bal, from), amt))
	er := c.freshErr("bankerr")
	b1 := app("store", bal, from, app("-", app("select", bal, from), amt))
	b2 := app("store", b1, to, app("+", app("select", b1, to), amt))
	e.setBankBal(st, ite(ok, b2, bal))
	return c.ret(ite(ok, "iface_nil", er))
}

func isBankIface(c *callCtx) bool {
	return strings.HasSuffix(namedPath(c.common.Value.Type()), ".BankKeeper")
}

func init() {
	bank := func(name string, f func(c *callCtx) Val) {
		invokeByMethod[name] = func(c *callCtx) (Val, bool) {
			if !isBankIface(c) {
				return Val{}, false
			}
			return f(c), true
		}
	}
	// args: [recv, ctx, ...]
	bank("SendCoinsFromAccountToModule", func(c *callCtx) Val {
		e := c.e()
		return e.bankTransfer(c, e.accAddr(c.st, c.args[2]), e.modAddr(c.args[3]), e.coinsTotal(c.st, c.args[4]))
	})
	bank("SendCoinsFromModuleToAccount", func(c *callCtx) Val {
		e := c.e()
		return e.bankTransfer(c, e.modAddr(c.args[2]), e.accAddr(c.st, c.args[3]), e.coinsTotal(c.st, c.args[4]))
	})
	bank("SendCoinsFromModuleToModule", func(c *callCtx) Val {
		e := c.e()
		return e.bankTransfer(c, e.modAddr(c.args[2]), e.modAddr(c.args[3]), e.coinsTotal(c.st, c.args[4]))
	})
	bank("MintCoins", func(c *callCtx) Val {
		e := c.e()
		st := c.st
		amt := e.coinsTotal(st, c.args[3])
		mod := e.modAddr(c.args[2])
		e.mintBurnSite(c, "mint", c.args[2])
		bal := e.bankBal(st)
		e.setBankBal(st, app("store", bal, mod, app("+", app("select", bal, mod), amt)))
		e.setBankSupply(st, app("+", e.bankSupply(st), amt))
		return c.ret("iface_nil")
	})
	bank("BurnCoins", func(c *callCtx) Val {
		e := c.e()
		st := c.st
		amt := e.coinsTotal(st, c.args[3])
		mod := e.modAddr(c.args[2])
		e.mintBurnSite(c, "burn", c.args[2])
		bal := e.bankBal(st)
		ok := e.vc.define("burn_ok", "Bool", app(">=", app("select", bal, mod), amt))
		er := c.freshErr("burnerr")
		e.setBankBal(st, ite(ok, app("store", bal, mod, app("-", app("select", bal, mod), amt)), bal))
		e.setBankSupply(st, ite(ok, app("-", e.bankSupply(st), amt), e.bankSupply(st)))
		return c.ret(ite(ok, "iface_nil", er))
	})
	bank("GetBalance", func(c *callCtx) Val {
		e := c.e()
		ss := e.vc.structInfo(c.rt)
		b := app("select", e.bankBal(c.st), e.accAddr(c.st, c.args[2]))
		e.assumeIn(c.st, app(">=", b, "0"))
		return c.def("balcoin", app("mk_"+ss.name, c.args[3].S, b))
	})
	bank("GetSupply", func(c *callCtx) Val {
		// total supply of the (single modelled) denomination
		e := c.e()
		ss := e.vc.structInfo(c.rt)
		return c.def("supplycoin", app("mk_"+ss.name, c.args[2].S, e.bankSupply(c.st)))
	})
	bank("HasBalance", func(c *callCtx) Val {
		e := c.e()
		ss := e.vc.structInfo(c.args[3].T)
		return c.ret(app(">=", app("select", e.bankBal(c.st), e.accAddr(c.st, c.args[2])), app(ss.fields[1], c.args[3].S)))
	})
	invokeMods["bank"] = nil
	for _, n := range []string{"SendCoinsFromAccountToModule", "SendCoinsFromModuleToAccount", "SendCoinsFromModuleToModule", "InputOutputCoins"} {
		bankModNames[n] = []string{"G_bank_bal"}
	}
	for _, n := range []string{"MintCoins", "BurnCoins"} {
		bankModNames[n] = []string{"G_bank_bal", "G_bank_supply"}
	}
	for _, n := range []string{"GetBalance", "HasBalance", "SpendableCoins", "GetSupply"} {
		bankModNames[n] = []string{}
	}
}

var bankModNames = map[string][]string{}

type ioSite struct {
	c              *callCtx
	newBal, oldBal string
	ok             string
}

// mintBurnSite records mint/burn call sites (C03 frame sweep uses the static scan; this only notes the module).
func (e *Engine) mintBurnSite(c *callCtx, kind string, module Val) {}

// ---------- contract access to ghost state ----------

func (e *Engine) ghostConst(name string, env *evalEnv) (Val, bool) {
	switch name {
	case "bank.bal":
		return Val{S: e.bankBal(env.st), T: ghostMapT, G: &ghostRef{name: "G_bank_bal", kind: "bank"}, GSt: env.st}, true
	case "bank.supply":
		return Val{S: e.bankSupply(env.st), T: specInt}, true
	case "staking.bonded":
		return Val{S: e.heap(env.st, "G_staking_bonded", "Int"), T: specInt}, true
	case "staking.validators":
		g := e.ghosts["G_staking_validators"]
		return Val{S: e.heap(env.st, g.name+"_v", e.heapSorts[g.name+"_v"]), T: ghostMapT, G: g, GSt: env.st}, true
	}
	parts := strings.Split(name, ".")
	if len(parts) == 2 {
		if g, ok := e.ghosts["G_"+parts[0]+"_"+parts[1]]; ok {
			switch g.kind {
			case "map":
				return Val{S: e.heap(env.st, g.name+"_v", e.heapSorts[g.name+"_v"]), T: ghostMapT, G: g, GSt: env.st}, true
			case "item":
				return Val{S: e.heap(env.st, g.name+"_v", g.vsort), T: g.vt, G: g, GSt: env.st}, true
			case "seq":
				return Val{S: e.heap(env.st, g.name+"_v", "Int"), T: specInt, G: g, GSt: env.st}, true
			}
		}
	}
	return Val{}, false
}

var ghostMapT = types.NewNamed(types.NewTypeName(0, nil, "ghostmap", nil), types.Typ[types.Int64], nil)

// specFunc: spec-level functions available in contracts.
func (e *Engine) specFunc(y *ECall, env *evalEnv) (Val, bool) {
	arg := func(i int) Val { return e.eval(y.Args[i], env) }
	switch y.Fn {
	case "sorted":
		// sorted(x): the ascending rearrangement of integer slice x (abstract sequence)
		if len(y.Args) != 1 {
			return Val{}, false
		}
		x := arg(0)
		sl, ok := types.Unalias(x.T).Underlying().(*types.Slice)
		if !ok || kindOf(sl.Elem()) != kInt {
			return e.evalErr("sorted() needs an integer slice"), true
		}
		e.declSeq()
		hn, hs := e.vc.arrHeapName(sl.Elem())
		arr := app("select", e.heap(env.st, hn, hs), app("sptr", x.S))
		return Val{S: app("sorted_of", app("seq_of", arr, app("soff", x.S), app("slen", x.S))), T: seqT}, true
	case "module":
		return Val{S: app("addr_mod", arg(0).S), T: addrT}, true
	case "acc":
		return Val{S: app("addr_acc", e.bvOf(env.st, arg(0))), T: addrT}, true
	case "bytes":
		a0 := arg(0)
		if a0.T != nil {
			// a fixed-size byte array ([20]byte address, [32]byte hash): its whole content
			if at, ok := types.Unalias(a0.T).Underlying().(*types.Array); ok {
				return Val{S: app("bv_of", a0.S, "0", fmt.Sprint(at.Len())), T: bvT}, true
			}
			if a0.T == bvT {
				return a0, true
			}
		}
		return Val{S: e.bvOf(env.st, a0), T: bvT}, true
	case "pair":
		a, b := arg(0), arg(1)
		ka, kb := e.specKey(a, env), e.specKey(b, env)
		srt := e.pairSortOf([]string{e.specKeySort(a), e.specKeySort(b)}, "Pair")
		return Val{S: app("mk_"+srt, ka, kb), T: bvT, KeySort: srt}, true
	case "triple":
		a, b, c := arg(0), arg(1), arg(2)
		srt := e.pairSortOf([]string{e.specKeySort(a), e.specKeySort(b), e.specKeySort(c)}, "Triple")
		return Val{S: app("mk_"+srt, e.specKey(a, env), e.specKey(b, env), e.specKey(c, env)), T: bvT, KeySort: srt}, true
	case "exists_in", "has":
		// has(store, key)
		if len(y.Args) == 2 {
			m := arg(0)
			if m.G != nil && m.G.kind == "map" {
				k := e.specKey(arg(1), env)
				return Val{S: app("select", e.heap(m.GSt, m.G.name+"_d", e.heapSorts[m.G.name+"_d"]), k), T: specBool}, true
			}
		}
		if len(y.Args) == 1 {
			m := arg(0)
			if m.G != nil && m.G.kind == "item" {
				return Val{S: e.heap(m.GSt, m.G.name+"_d", "Bool"), T: specBool}, true
			}
		}
	case "seen":
		// seen(k): key k of the map ranged over by the loop under consideration has already been visited
		if env.fr != nil && env.loop != nil {
			for _, b := range env.loop.header.Instrs {
				if nx, ok := b.(*ssa.Next); ok {
					if it := env.fr.iters[nx.Iter]; it != nil {
						return Val{S: app("select", e.heap(env.st, it.seen, e.heapSorts[it.seen]), arg(0).S), T: specBool}, true
					}
				}
			}
		}
		return e.evalErr("seen() outside a map-range loop invariant"), true
	case "deref":
		p := arg(0)
		pt, ok := types.Unalias(p.T).Underlying().(*types.Pointer)
		if !ok {
			return e.evalErr("deref of non-pointer"), true
		}
		hn, hs := e.vc.heapName(pt.Elem())
		return Val{S: app("select", e.heap(env.st, hn, hs), p.S), T: pt.Elem()}, true
	case "blocktime":
		c := arg(0)
		srt := "O_" + mangle("github.com/cosmos/cosmos-sdk/types.Context")
		_ = srt
		cs := e.sdkCtxSort()
		e.vc.declFun("unwrap_ctx", []string{"Iface"}, cs)
		e.declCtxTime(cs)
		if kindOf(c.T) == kIface {
			return Val{S: app("ctx_time", app("unwrap_ctx", c.S)), T: specInt}, true
		}
		return Val{S: app("ctx_time", c.S), T: specInt}, true
	case "blockheight":
		c := arg(0)
		cs := e.sdkCtxSort()
		e.vc.declFun("unwrap_ctx", []string{"Iface"}, cs)
		e.vc.declFun("ctx_height", []string{cs}, "Int")
		if kindOf(c.T) == kIface {
			return Val{S: app("ctx_height", app("unwrap_ctx", c.S)), T: specInt}, true
		}
		return Val{S: app("ctx_height", c.S), T: specInt}, true
	case "msgs":
		// msgs(tx): the messages of a transaction (result of tx.GetMsgs())
		x := arg(0)
		e.vc.declFun("tx_msgs", []string{"Iface"}, "Slice")
		mt := e.prog.lookupType("github.com/cosmos/cosmos-sdk/types.Msg")
		if mt == nil {
			return e.evalErr("sdk.Msg type not found"), true
		}
		return Val{S: app("tx_msgs", x.S), T: types.NewSlice(mt)}, true
	case "nothing_written":
		// nothing_written(): every module store, bank balances and supply are as at function entry
		var cs []string
		var ks []string
		for k := range e.heapSorts {
			if strings.HasPrefix(k, "G_") {
				ks = append(ks, k)
			}
		}
		sort.Strings(ks)
		for _, k := range ks {
			cur, old := e.heap(env.st, k, e.heapSorts[k]), e.heap(env.old, k, e.heapSorts[k])
			if cur != old {
				cs = append(cs, eq(cur, old))
			}
		}
		return Val{S: and(cs...), T: specBool}, true
	case "lower":
		e.vc.declFun("str_lower", []string{"Str"}, "Str")
		return Val{S: app("str_lower", arg(0).S), T: types.Typ[types.String]}, true
	case "accbytes":
		// accbytes(s): the address bytes that the bech32 string s decodes to
		e.declAddrStr()
		return Val{S: app("accbv", arg(0).S), T: bvT}, true
	case "accstr":
		// accstr(b): the bech32 account string of address bytes b (AccAddress.String)
		e.declAddrStr()
		return Val{S: app("acc_str", e.specKey(arg(0), env)), T: types.Typ[types.String]}, true
	case "addrstr":
		e.declAddrStr()
		return Val{S: app("addr_str", arg(0).S), T: addrT}, true
	case "allocated":
		// allocated(p): p refers to an object that exists at this point (not nil, allocated earlier)
		p := arg(0)
		if p.T != nil && kindOf(p.T) == kSlice {
			// a slice: its backing array exists at this point (nil slices included)
			return Val{S: and(app("<=", "0", app("sptr", p.S)), app("<", app("sptr", p.S), env.st.top)), T: specBool}, true
		}
		return Val{S: and(app("<", "0", p.S), app("<", p.S, env.st.top)), T: specBool}, true
	case "ishex":
		e.vc.declFun("isnum16", []string{"Str"}, "Bool")
		return Val{S: app("isnum16", arg(0).S), T: specBool}, true
	case "hexnum":
		e.vc.declFun("numval16", []string{"Str"}, "Int")
		return Val{S: app("numval16", arg(0).S), T: specInt}, true
	case "zerotime":
		return Val{S: timeZeroNs, T: specInt}, true
	case "ndelegations":
		e.declStaking()
		return Val{S: app("dels_len", e.stakingEpoch(env.st), arg0addr(e, arg(0), env)), T: specInt}, true
	case "delegation":
		e.declStaking()
		dt := e.prog.lookupType(stakingT + ".Delegation")
		return Val{S: app("dels_at", e.stakingEpoch(env.st), arg0addr(e, arg(0), env), arg(1).S), T: dt}, true
	case "valaddr":
		e.declStaking()
		return Val{S: app("valbv", arg(0).S), T: bvT}, true
	case "tokens_from_shares":
		// tokens_from_shares(validator, shares): Validator.TokensFromShares as a Dec mantissa
		v := arg(0)
		ss := e.vc.structInfo(v.T)
		return Val{S: e.tokensFromShares(app(fieldSel(ss, "Tokens"), v.S), app(fieldSel(ss, "DelegatorShares"), v.S), arg(1).S, false), T: specInt}, true
	case "iterk":
		if l, ok := y.Args[0].(*ELit); ok {
			return Val{S: e.heap(env.logState(), "iterk_"+l.Val, "Int"), T: specInt}, true
		}
	case "iterkey":
		// iterkey(N, j): last key component of the j-th element visited by callback iteration N (Walk)
		if l, ok := y.Args[0].(*ELit); ok && env.fr != nil {
			var n int
			fmt.Sscanf(l.Val, "%d", &n)
			if f := env.fr.iterKey[n]; f != nil {
				return Val{S: f(arg(1).S), T: specInt}, true
			}
			return e.evalErr("iterkey: iteration " + l.Val + " is not a modelled Walk (or has not run yet)"), true
		}
	case "matchcount":
		// matchcount(store, "IndexField", key): how many stored entries the index field maps to key (the length of
		// the sequence Indexes.IndexField.MatchExact(key) yields)
		if l, ok := y.Args[1].(*ELit); ok && len(y.Args) == 3 {
			m := arg(0)
			if m.G != nil && m.G.kind == "map" {
				k := arg(2)
				ks := "Int"
				switch {
				case k.T == bvT || (k.T != nil && isByteSlice(k.T)):
					ks = "BV"
				case k.T != nil && kindOf(k.T) == kStr:
					ks = "Str"
				}
				d := e.heap(m.GSt, m.G.name+"_d", e.heapSorts[m.G.name+"_d"])
				return Val{S: e.matchCount(m.G, l.Val, d, m.S, e.specKey(k, env), ks), T: specInt}, true
			}
		}
		return e.evalErr("matchcount(store, \"IndexField\", key) needs an indexed map store"), true
	case "itlen":
		e.declIter("Int")
		return Val{S: app("itlen", e.iterID(arg(0))), T: specInt}, true
	case "itpos":
		e.declIter("Int")
		return Val{S: e.iterPos(env.st, e.iterID(arg(0))), T: specInt}, true
	case "itkey":
		// itkey(it, j): j-th primary key of an index iterator
		it := arg(0)
		if ta := iterTypeArgs(it.T); ta != nil && ta.Len() == 2 {
			ks := e.keySort(ta.At(1))
			e.declIter(ks)
			return Val{S: app("itkey_"+mangle(ks), e.iterID(it), arg(1).S), T: bvT, KeySort: ks}, true
		}
		return e.evalErr("itkey: not an index iterator"), true
	case "k1", "k2", "k3":
		// components of a store key (pair/triple)
		kv := arg(0)
		srt := kv.KeySort
		if srt == "" && kv.T != nil {
			if name, _ := pairArgs(kv.T); name != "" {
				srt = e.vc.sortOf(kv.T)
			}
		}
		if srt == "" {
			return e.evalErr(y.Fn + ": not a composite store key"), true
		}
		i := int(y.Fn[1] - '1')
		comp := app(fmt.Sprintf("%s_%d", srt, i), kv.S)
		if cs := e.keyCompSort(srt, i); cs == "BV" {
			return Val{S: comp, T: bvT}, true
		}
		return Val{S: comp, T: specInt}, true
	case "abienc":
		// abienc("t1,t2,...", v1, v2, ...): the ABI encoding of the values with those Solidity types
		if l, ok := y.Args[0].(*ELit); ok {
			e.declABI()
			tys := strings.Split(l.Val, ",")
			if len(tys) != len(y.Args)-1 {
				return e.evalErr("abienc: number of types and values differ"), true
			}
			tl, vl := "atnil", "avnil"
			for i := len(tys) - 1; i >= 0; i-- {
				tl = app("atcons", e.vc.strLit(strings.TrimSpace(tys[i])), tl)
				a := arg(i + 1)
				var av string
				switch {
				case a.T == bvT || (a.T != nil && isByteSlice(a.T)):
					av = app("av_bytes", e.specKey(a, env))
				case a.T != nil && kindOf(a.T) == kStr:
					av = app("av_str", a.S)
				case a.T == specBool || (a.T != nil && kindOf(a.T) == kBool):
					av = app("av_bool", a.S)
				default:
					av = app("av_int", a.S)
				}
				vl = app("avcons", av, vl)
			}
			return Val{S: app("abi_pack", tl, vl), T: bvT}, true
		}
	case "abidec_int", "abidec_str", "abidec_bytes", "abidec_bool":
		// abidec_int("t1,t2,...", data, i): the i-th value decoded from data with those Solidity types (Unpack)
		if l, ok := y.Args[0].(*ELit); ok && len(y.Args) == 3 {
			e.declABI()
			tys := strings.Split(l.Val, ",")
			tl := "atnil"
			for i := len(tys) - 1; i >= 0; i-- {
				tl = app("atcons", e.vc.strLit(strings.TrimSpace(tys[i])), tl)
			}
			av := app("abi_unpack_at", tl, e.specKey(arg(1), env), arg(2).S)
			switch y.Fn {
			case "abidec_int":
				return Val{S: app("unav_int", av), T: specInt}, true
			case "abidec_str":
				return Val{S: app("unav_str", av), T: types.Typ[types.String]}, true
			case "abidec_bool":
				return Val{S: app("unav_bool", av), T: specBool}, true
			}
			return Val{S: app("unav_bytes", av), T: bvT}, true
		}
	case "pad":
		// pad(b, n): byte string b right-padded with zeros / truncated to n bytes (copy into a fresh [n]byte)
		e.declABI()
		return Val{S: app("bv_pad", e.specKey(arg(0), env), arg(1).S), T: bvT}, true
	case "ethaddr":
		e.declABI()
		e.vc.declFun("ethaddr", []string{"BV"}, "BV")
		return Val{S: app("ethaddr", e.specKey(arg(0), env)), T: bvT}, true
	case "hexdec":
		e.declABI()
		return Val{S: app("hexdec", arg(0).S), T: bvT}, true
	case "ishexbytes":
		e.declABI()
		return Val{S: app("ishexbytes", arg(0).S), T: specBool}, true
	case "strbytes":
		// strbytes(s): the bytes of string s ([]byte(s))
		e.declABI()
		e.vc.declFun("str_bytes", []string{"Str"}, "(Array Int Int)")
		return Val{S: app("bv_of", app("str_bytes", arg(0).S), "0", app("str_len", arg(0).S)), T: bvT}, true
	case "pow2":
		e.vc.declFun("pow2", []string{"Int"}, "Int")
		e.vc.declSort("(assert (= (pow2 0) 1))")
		e.vc.declSort("(assert (forall ((n Int)) (! (=> (> n 0) (= (pow2 n) (* 2 (pow2 (- n 1))))) :pattern ((pow2 n)))))")
		e.vc.declSort("(assert (forall ((n Int)) (! (=> (>= n 0) (>= (pow2 n) 1)) :pattern ((pow2 n)))))")
		return Val{S: app("pow2", arg(0).S), T: specInt}, true
	case "someint":
		// someint("name", a, b, ...): an unspecified integer depending on the arguments (e.g. "the power of reporter a")
		if l, ok := y.Args[0].(*ELit); ok {
			var as, sorts []string
			for i := 1; i < len(y.Args); i++ {
				a := arg(i)
				srt := "Int"
				switch {
				case a.T == bvT || (a.T != nil && isByteSlice(a.T)):
					srt = "BV"
				case a.T != nil && kindOf(a.T) == kStr:
					srt = "Str"
				}
				as = append(as, e.specKey(a, env))
				sorts = append(sorts, srt)
			}
			fn := "ski_" + mangle(l.Val)
			e.declAddr()
			e.vc.declFun(fn, sorts, "Int")
			return Val{S: app(fn, as...), T: specInt}, true
		}
	case "somebytes":
		// somebytes("name", a, b, ...): an unspecified byte string depending on the arguments (existential witness in
		// a precondition, e.g. "some reporter of this round")
		if l, ok := y.Args[0].(*ELit); ok {
			var as, sorts []string
			for i := 1; i < len(y.Args); i++ {
				a := arg(i)
				srt := "Int"
				switch {
				case a.T == bvT || (a.T != nil && isByteSlice(a.T)):
					srt = "BV"
				case a.T != nil && kindOf(a.T) == kStr:
					srt = "Str"
				}
				as = append(as, e.specKey(a, env))
				sorts = append(sorts, srt)
			}
			fn := "sk_" + mangle(l.Val)
			e.declAddr()
			e.vc.declFun(fn, sorts, "BV")
			return Val{S: app(fn, as...), T: bvT}, true
		}
	case "sha256":
		e.declAddr()
		e.vc.declFun("sha256f", []string{"BV"}, "BV")
		return Val{S: app("sha256f", e.specKey(arg(0), env)), T: bvT}, true
	case "bytescmp":
		// bytescmp(a, b): bytes.Compare(a, b)
		e.declBvCmp()
		return Val{S: app("bv_cmp", e.specKey(arg(0), env), e.specKey(arg(1), env)), T: specInt}, true
	case "jsonok":
		// jsonok("pkg.Type", data): json.Unmarshal of data into a value of that type succeeds
		if l, ok := y.Args[0].(*ELit); ok && len(y.Args) == 2 {
			if t := e.prog.lookupType(l.Val); t != nil {
				okfn := "jsonok_" + mangle(typeKey(t))
				e.declAddr()
				e.vc.declFun(okfn, []string{"BV"}, "Bool")
				return Val{S: app(okfn, e.specKey(arg(1), env)), T: specBool}, true
			}
			return e.evalErr("jsonok: unknown type " + l.Val), true
		}
	case "jsonlen":
		// jsonlen("pkg.Type.Field.Sub", data): length of that slice field in the value json.Unmarshal decodes from data
		if l, ok := y.Args[0].(*ELit); ok {
			parts := strings.Split(l.Val, ".")
			for cut := len(parts) - 1; cut >= 1; cut-- {
				t := e.prog.lookupType(strings.Join(parts[:cut], "."))
				if t == nil {
					continue
				}
				var path []int
				cur := t
				okp := true
				for _, fnm := range parts[cut:] {
					ss := e.vc.structInfo(cur)
					idx := -1
					if ss != nil {
						for i, n := range ss.fnames {
							if n == fnm {
								idx = i
							}
						}
					}
					if idx < 0 {
						okp = false
						break
					}
					path = append(path, idx)
					cur = ss.ftypes[idx]
				}
				if okp && kindOf(cur) == kSlice {
					fn, _ := e.jsonLenFn(t, path)
					return Val{S: app(fn, e.specKey(arg(1), env)), T: specInt}, true
				}
			}
			return e.evalErr("jsonlen: no slice field " + l.Val), true
		}
	case "count":
		// count(store): number of keys of a store
		if m := arg(0); m.G != nil && m.G.kind == "map" {
			return Val{S: e.card(m.G, e.heap(m.GSt, m.G.name+"_d", e.heapSorts[m.G.name+"_d"])), T: specInt}, true
		}
		return e.evalErr("count: not a keyed store"), true
	case "strip0x":
		// strip0x(s): s without a leading 0x / 0X (registry/types.Remove0xPrefix)
		e.vc.declFun("strip0x", []string{"Str"}, "Str")
		return Val{S: app("strip0x", arg(0).S), T: types.Typ[types.String]}, true
	case "keccak":
		// keccak(b): Keccak256 of a byte string (query id of query data)
		e.vc.declFun("keccak1", []string{"BV"}, "BV")
		return Val{S: app("keccak1", e.specKey(arg(0), env)), T: bvT}, true
	case "bech32ok":
		// bech32ok(s): s is a well-formed account address string (AccAddressFromBech32 succeeds)
		e.declAddrStr()
		return Val{S: app("bech32ok", arg(0).S), T: specBool}, true
	case "unixms":
		// unixms(t): time.Time.UnixMilli
		return Val{S: app("div", arg(0).S, "1000000"), T: specInt}, true
	case "iterstopped":
		if l, ok := y.Args[0].(*ELit); ok {
			return Val{S: e.heap(env.logState(), "iterstopped_"+l.Val, "Bool"), T: specBool}, true
		}
	case "get0":
		// get0(store, key): the stored value, or the zero value when the key is absent (what layer code uses after ErrNotFound)
		if len(y.Args) == 2 {
			m := arg(0)
			if m.G != nil && m.G.kind == "map" {
				k := e.specKey(arg(1), env)
				dom := app("select", e.heap(m.GSt, m.G.name+"_d", e.heapSorts[m.G.name+"_d"]), k)
				return Val{S: ite(dom, app("select", m.S, k), e.zero(m.G.vt)), T: m.G.vt}, true
			}
		}
		return e.evalErr("get0(store, key) needs a map store"), true
	case "coins":
		return Val{S: e.coinsTotal(env.st, arg(0)), T: specInt}, true
	case "is_err":
		// is_err(err, "pkg.ErrName")
	}
	return Val{}, false
}

var addrT = types.NewNamed(types.NewTypeName(0, nil, "specaddr", nil), types.Typ[types.Int64], nil)
var bvT = types.NewNamed(types.NewTypeName(0, nil, "specbv", nil), types.Typ[types.Int64], nil)

func (e *Engine) specKey(v Val, env *evalEnv) string {
	if v.T != nil && isByteSlice(v.T) {
		if v.Log {
			return e.bvOf(env.logState(), v)
		}
		return e.bvOf(env.st, v)
	}
	return v.S
}

func (e *Engine) specKeySort(v Val) string {
	if v.KeySort != "" {
		return v.KeySort
	}
	if v.T != nil && isByteSlice(v.T) {
		return "BV"
	}
	if v.T == bvT {
		return "BV"
	}
	if v.T == specInt {
		return "Int"
	}
	if v.T == nil {
		return "Int"
	}
	return e.keySort(v.T)
}

func (e *Engine) pairSortOf(ks []string, name string) string {
	sn := "K" + name + "_" + mangle(strings.Join(ks, "_"))
	var fl []string
	for i, k := range ks {
		fl = append(fl, fmt.Sprintf("(%s_%d %s)", sn, i, k))
	}
	e.vc.declSort(fmt.Sprintf("(declare-datatypes ((%s 0)) (((mk_%s %s))))", sn, sn, strings.Join(fl, " ")))
	return sn
}

// sdkCtxSort: the sort of sdk.Context values.
func (e *Engine) sdkCtxSort() string {
	for _, pkg := range e.prog.Pkgs {
		if imp, ok := pkg.Imports["github.com/cosmos/cosmos-sdk/types"]; ok && imp.Types != nil {
			if o := imp.Types.Scope().Lookup("Context"); o != nil {
				return e.vc.sortOf(o.Type())
			}
		}
	}
	return "Iface"
}

func arg0addr(e *Engine, v Val, env *evalEnv) string {
	if v.T == addrT {
		return v.S
	}
	if v.Log {
		return app("addr_acc", e.bvOf(env.logState(), v))
	}
	return app("addr_acc", e.bvOf(env.st, v))
}

// declCtxTime declares the block time of a Context with its type invariant (zero time or int64 nanoseconds).
func (e *Engine) declCtxTime(cs string) {
	e.vc.declFun("ctx_time", []string{cs}, "Int")
	if !e.vc.declared["ctx_time_inv"] {
		e.vc.declared["ctx_time_inv"] = true
		e.vc.declSort(fmt.Sprintf("(assert (forall ((c %s)) (! (or (= (ctx_time c) %s) (and (<= (- 9223372036854775808) (ctx_time c)) (<= (ctx_time c) 9223372036854775807))) :pattern ((ctx_time c)))))", cs, timeZeroNs))
	}
}

// keyCompSort: sort of component i of a composite key sort (from its name K<Pair|Triple>_<s1>_<s2>...).
func (e *Engine) keyCompSort(srt string, i int) string {
	parts := strings.Split(srt, "_")
	if len(parts) >= i+2 {
		return parts[i+1]
	}
	return "Int"
}
