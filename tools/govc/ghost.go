package main

import (
	"go/types"
)

// seqT marks abstract integer sequences in contract expressions.
var seqT = types.NewNamed(types.NewTypeName(0, nil, "specseq", nil), types.Typ[types.Int64], nil)

func (e *Engine) registerGhosts(st *State) {}

func (e *Engine) ghostConst(name string, env *evalEnv) (Val, bool) { return Val{}, false }

// specFunc: spec-level functions available in contracts.
func (e *Engine) specFunc(y *ECall, env *evalEnv) (Val, bool) {
	switch y.Fn {
	case "sorted":
		// sorted(x): the ascending rearrangement of integer slice x (abstract sequence)
		if len(y.Args) != 1 {
			return Val{}, false
		}
		x := e.eval(y.Args[0], env)
		sl, ok := types.Unalias(x.T).Underlying().(*types.Slice)
		if !ok || kindOf(sl.Elem()) != kInt {
			return e.evalErr("sorted() needs an integer slice"), true
		}
		e.declSeq()
		hn, hs := e.vc.arrHeapName(sl.Elem())
		arr := app("select", e.heap(env.st, hn, hs), app("sptr", x.S))
		return Val{S: app("sorted_of", app("seq_of", arr, app("soff", x.S), app("slen", x.S))), T: seqT}, true
	}
	return Val{}, false
}
