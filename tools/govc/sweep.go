package main

// Structural sweeps: frame conditions checked over the SSA call graph of the whole in-scope program.
// Each sweep yields named obligations whose truth is decided syntactically (solver "structural").

type SweepResult struct {
	Name        string
	Obls        []*Obligation
	Sites       []string
	Explanation string
}

var sweeps = map[string]func(p *Prog) *SweepResult{}

func runSweep(p *Prog, name string) *SweepResult {
	if f, ok := sweeps[name]; ok {
		return f(p)
	}
	return &SweepResult{Name: name, Explanation: "unknown sweep"}
}

func structObl(name, kind string, ok bool, detail string) *Obligation {
	o := &Obligation{Name: name, Kind: kind, Solver: "structural"}
	if ok {
		o.Status = "discharged"
	} else {
		o.Status = "failed"
		o.Model = detail
	}
	return o
}
