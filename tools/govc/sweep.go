package main

// Structural sweeps: frame conditions ("nothing else writes X") checked over the SSA of the whole in-scope
// program. Each site found is one obligation; it is discharged iff the site is on the documented list
// (tools/govc/sweeps_expected.go). A new writer introduced by a change is a failing obligation.

import (
	"fmt"
	"go/types"
	"sort"
	"strings"

	"golang.org/x/tools/go/ssa"
)

type SweepResult struct {
	Name        string
	Obls        []*Obligation
	Sites       []string
	Explanation string
}

var sweeps = map[string]func(p *Prog) *SweepResult{}

func runSweep(p *Prog, name string) *SweepResult {
	if f, ok := sweeps[name]; ok {
		return f(p)
	}
	return &SweepResult{Name: name, Explanation: "unknown sweep"}
}

func structObl(name, kind string, ok bool, detail string) *Obligation {
	o := &Obligation{Name: name, Kind: kind, Solver: "structural"}
	if ok {
		o.Status = "discharged"
	} else {
		o.Status = "failed"
		o.Model = detail
	}
	return o
}

// productionFunc: functions of layer that run in the node (no mocks, simulation, CLI, test utilities).
func productionFunc(key string) bool {
	for _, bad := range []string{"/mocks.", "/simulation.", "/client/", "testutil", "/testutils", "_test.", "/mock."} {
		if strings.Contains(key, bad) {
			return false
		}
	}
	return true
}

type callSite struct {
	fn     *ssa.Function
	key    string // function key of the enclosing function (closures attributed to their parent)
	instr  ssa.CallInstruction
	callee string // static callee full name or "(iface).Method"
	method string
	recvT  types.Type
}

func ownerKey(fn *ssa.Function) string {
	for fn.Parent() != nil {
		fn = fn.Parent()
	}
	return funcKey(fn)
}

// allCalls enumerates call instructions in production functions.
func (p *Prog) allCalls(f func(cs callSite)) {
	keys := p.sortedFuncKeys()
	for _, k := range keys {
		if !productionFunc(k) {
			continue
		}
		fn := p.Funcs[k]
		if fn.Origin() != nil && fn.Origin() != fn {
			// generic instances: scan as well (bodies differ only by types)
		}
		for _, b := range fn.Blocks {
			for _, in := range b.Instrs {
				ci, ok := in.(ssa.CallInstruction)
				if !ok {
					continue
				}
				cc := ci.Common()
				cs := callSite{fn: fn, key: ownerKey(fn), instr: ci}
				if cc.IsInvoke() {
					cs.method = cc.Method.Name()
					cs.recvT = cc.Value.Type()
					cs.callee = "(" + typeKeyFull(cc.Value.Type()) + ")." + cs.method
				} else if c := cc.StaticCallee(); c != nil {
					cs.callee = c.String()
					if o := c.Origin(); o != nil {
						cs.callee = o.String()
					}
					cs.method = c.Name()
					if r := c.Signature.Recv(); r != nil {
						cs.recvT = r.Type()
					}
				} else {
					continue
				}
				f(cs)
			}
		}
	}
}

// siteSweep builds obligations "site is documented" for every site selected by sel, plus
// "documented site still exists" is NOT required (removing a writer cannot break a frame).
func siteSweep(p *Prog, name, what string, sel func(cs callSite) (siteID string, ok bool), expected map[string]string) *SweepResult {
	sr := &SweepResult{Name: name}
	seen := map[string]bool{}
	p.allCalls(func(cs callSite) {
		id, ok := sel(cs)
		if !ok {
			return
		}
		full := cs.key + " -> " + id
		if seen[full] {
			return
		}
		seen[full] = true
	})
	var ids []string
	for id := range seen {
		ids = append(ids, id)
	}
	sort.Strings(ids)
	for _, id := range ids {
		doc, ok := expected[id]
		o := structObl(fmt.Sprintf("sweep.%s#site(%s)", name, id), "frame.sweep", ok,
			fmt.Sprintf("undocumented %s: %s (documented sites are listed in tools/govc/sweeps_expected.go)", what, id))
		if ok {
			sr.Sites = append(sr.Sites, id+"  ["+doc+"]")
		} else {
			sr.Sites = append(sr.Sites, id+"  [UNDOCUMENTED]")
		}
		sr.Obls = append(sr.Obls, o)
	}
	sr.Explanation = fmt.Sprintf("%d sites of '%s' found in %d production functions; each must be on the documented list", len(ids), what, len(p.Funcs))
	return sr
}

func isBankIfaceType(t types.Type) bool {
	np := namedPath(t)
	return strings.HasSuffix(np, ".BankKeeper") || strings.Contains(np, "cosmos-sdk/x/bank/keeper")
}

func init() {
	// C03: writers of total supply
	sweeps["supply_writers"] = func(p *Prog) *SweepResult {
		return siteSweep(p, "supply_writers", "call that mints or burns coins", func(cs callSite) (string, bool) {
			switch cs.method {
			case "MintCoins", "BurnCoins", "BurnTokens", "UndelegateCoinsFromModuleToAccount", "DelegateCoinsFromAccountToModule":
				if strings.HasPrefix(cs.callee, "(") {
					return cs.method + "@" + shortCallee(cs.callee), true
				}
			}
			// callers of the layer functions that contain a mint/burn
			if c := cs.instr.Common().StaticCallee(); c != nil && supplyChangingFuncs[funcKey(c)] {
				return "call@" + funcKey(c), true
			}
			return "", false
		}, expectedSupplyWriters)
	}
}

func shortCallee(c string) string {
	c = strings.ReplaceAll(c, modPath+"/", "")
	c = strings.ReplaceAll(c, "github.com/cosmos/cosmos-sdk/", "sdk/")
	return c
}

// C18: the stake-change decorator is part of the ante chain built by app.NewAnteHandler.
func init() {
	sweeps["ante_chain"] = func(p *Prog) *SweepResult {
		sr := &SweepResult{Name: "ante_chain"}
		fn := p.Funcs["app.NewAnteHandler"]
		found, chained := false, false
		if fn != nil {
			for _, b := range fn.Blocks {
				for _, in := range b.Instrs {
					c, ok := in.(*ssa.Call)
					if !ok {
						continue
					}
					callee := c.Call.StaticCallee()
					if callee == nil || !strings.HasSuffix(callee.String(), "x/reporter/ante.NewTrackStakeChangesDecorator") {
						continue
					}
					found = true
					// the decorator value must be boxed and stored into the decorator list
					for _, r := range *c.Referrers() {
						if mi, ok := r.(*ssa.MakeInterface); ok {
							for _, r2 := range *mi.Referrers() {
								if _, ok := r2.(*ssa.Store); ok {
									chained = true
								}
							}
						}
					}
				}
			}
			// and the list must be passed to ChainAnteDecorators
			usesChain := false
			for _, b := range fn.Blocks {
				for _, in := range b.Instrs {
					if c, ok := in.(*ssa.Call); ok {
						if callee := c.Call.StaticCallee(); callee != nil && strings.HasSuffix(callee.String(), "cosmos-sdk/types.ChainAnteDecorators") {
							usesChain = true
						}
					}
				}
			}
			chained = chained && usesChain
		}
		sr.Obls = append(sr.Obls, structObl("sweep.ante_chain#decorator_constructed_in_NewAnteHandler", "frame.sweep", found, "app.NewAnteHandler no longer constructs the TrackStakeChangesDecorator"))
		sr.Obls = append(sr.Obls, structObl("sweep.ante_chain#decorator_in_chain", "frame.sweep", chained, "the TrackStakeChangesDecorator is constructed but not placed in the list given to ChainAnteDecorators"))
		sr.Sites = []string{"app.NewAnteHandler"}
		sr.Explanation = "structural check on the SSA of app/ante.go: decorator constructed, boxed, stored in the decorator list, list passed to ChainAnteDecorators"
		return sr
	}
}

// ---------- C01: sources of nondeterminism ----------

// consensusFunc: production functions that run as part of block execution (modules, ante, proposal handling).
// The price daemon, CLI and node start-up code are excluded.
func consensusFunc(key string) bool {
	if !productionFunc(key) {
		return false
	}
	return strings.HasPrefix(key, "x/") || strings.HasPrefix(key, "app.") || strings.HasPrefix(key, "lib.") || strings.HasPrefix(key, "utils.") || strings.HasPrefix(key, "types.")
}

func instrSweep(p *Prog, name, what string, sel func(fn *ssa.Function, in ssa.Instruction) (string, bool), expected map[string]string) *SweepResult {
	sr := &SweepResult{Name: name}
	seen := map[string]bool{}
	for _, k := range p.sortedFuncKeys() {
		if !consensusFunc(k) {
			continue
		}
		fn := p.Funcs[k]
		for _, b := range fn.Blocks {
			for _, in := range b.Instrs {
				if id, ok := sel(fn, in); ok {
					seen[ownerKey(fn)+" -> "+id] = true
				}
			}
		}
	}
	var ids []string
	for id := range seen {
		ids = append(ids, id)
	}
	sort.Strings(ids)
	for _, id := range ids {
		doc, ok := expected[id]
		sr.Obls = append(sr.Obls, structObl(fmt.Sprintf("sweep.%s#site(%s)", name, id), "frame.sweep", ok,
			fmt.Sprintf("undocumented %s: %s (documented sites are listed in tools/govc/sweeps_expected.go)", what, id)))
		if ok {
			sr.Sites = append(sr.Sites, id+"  ["+doc+"]")
		} else {
			sr.Sites = append(sr.Sites, id+"  [UNDOCUMENTED]")
		}
	}
	sr.Explanation = fmt.Sprintf("%d sites of '%s' in consensus code; each must be on the documented list with its order-independence argument", len(ids), what)
	return sr
}

func init() {
	sweeps["map_ranges"] = func(p *Prog) *SweepResult {
		return instrSweep(p, "map_ranges", "range over a Go map", func(fn *ssa.Function, in ssa.Instruction) (string, bool) {
			r, ok := in.(*ssa.Range)
			if !ok {
				return "", false
			}
			if _, isMap := types.Unalias(r.X.Type()).Underlying().(*types.Map); !isMap {
				return "", false
			}
			return "range " + typeShort(r.X.Type()), true
		}, expectedMapRanges)
	}
	sweeps["unstable_sorts"] = func(p *Prog) *SweepResult {
		return siteSweepFiltered(p, "unstable_sorts", "unstable sort", func(cs callSite) (string, bool) {
			if cs.callee == "sort.Slice" || cs.callee == "sort.Sort" || cs.callee == "sort.Strings" || cs.callee == "slices.SortFunc" {
				return cs.callee, true
			}
			return "", false
		}, expectedUnstableSorts)
	}
	sweeps["forbidden_sources"] = func(p *Prog) *SweepResult {
		return siteSweepFiltered(p, "forbidden_sources", "wall clock / randomness / environment / configuration access", func(cs callSite) (string, bool) {
			c := cs.callee
			switch {
			case c == "time.Now":
				// a wall-clock value that only flows into telemetry is harmless
				if v, ok := cs.instr.(ssa.Value); ok && v.Referrers() != nil {
					onlyTelemetry := true
					for _, r := range *v.Referrers() {
						ok2 := false
						switch x := r.(type) {
						case *ssa.Defer:
							if cal := x.Call.StaticCallee(); cal != nil && isDropped(cal.String()) {
								ok2 = true
							}
						case *ssa.Call:
							if cal := x.Call.StaticCallee(); cal != nil && isDropped(cal.String()) {
								ok2 = true
							}
						case *ssa.DebugRef:
							ok2 = true
						}
						if !ok2 {
							onlyTelemetry = false
						}
					}
					if onlyTelemetry {
						return "time.Now[telemetry-only]", true
					}
				}
				return "time.Now[value used]", true
			case c == "time.Since" || strings.HasPrefix(c, "math/rand.") || strings.HasPrefix(c, "(*math/rand.") ||
				strings.HasPrefix(c, "crypto/rand.") || strings.HasPrefix(c, "os.Getenv") || strings.HasPrefix(c, "os.ReadFile") || strings.HasPrefix(c, "os.Open") ||
				strings.HasPrefix(c, "github.com/spf13/viper.") || strings.HasPrefix(c, "(*github.com/spf13/viper.") || strings.HasPrefix(c, "runtime.NumGoroutine") || strings.HasPrefix(c, "os.Hostname"):
				return c, true
			}
			return "", false
		}, expectedForbiddenSources)
	}
	sweeps["goroutines"] = func(p *Prog) *SweepResult {
		return instrSweep(p, "goroutines", "goroutine start / channel select", func(fn *ssa.Function, in ssa.Instruction) (string, bool) {
			switch in.(type) {
			case *ssa.Go:
				return "go statement", true
			case *ssa.Select:
				return "select statement", true
			}
			return "", false
		}, expectedGoroutines)
	}
}

func typeShort(t types.Type) string {
	return types.TypeString(t, func(p *types.Package) string { return p.Name() })
}

// siteSweepFiltered: like siteSweep but restricted to consensus code.
func siteSweepFiltered(p *Prog, name, what string, sel func(cs callSite) (string, bool), expected map[string]string) *SweepResult {
	return siteSweep(p, name, what, func(cs callSite) (string, bool) {
		if !consensusFunc(cs.key) {
			return "", false
		}
		return sel(cs)
	}, expected)
}
