package main

// encoding/json.Unmarshal and reflect.DeepEqual (trusted specification T3, partial):
//
// json.Unmarshal(data, &v) with v a struct of /repo: the target is overwritten with an unconstrained value, except
// that, when no error is returned, the lengths of its slice fields (up to two levels of nested structs) are
// functions of the input bytes -- decoding is deterministic: jsonlen("T.Path", data) in contracts. Nothing else
// about the decoded content is modelled.
//
// reflect.DeepEqual(a, b) on two slices: true implies equal lengths (and, for slices of integers and strings,
// equal elements); nothing is derived from false.

import (
	"fmt"
	"go/types"

	"golang.org/x/tools/go/ssa"
)

// sliceFieldPaths lists the slice-typed fields of struct t (nested structs up to depth 2) as selector chains.
func (e *Engine) sliceFieldPaths(t types.Type, depth int) [][]int {
	ss := e.vc.structInfo(t)
	if ss == nil || ss.opaque {
		return nil
	}
	var out [][]int
	for i, ft := range ss.ftypes {
		switch kindOf(ft) {
		case kSlice:
			out = append(out, []int{i})
		case kStruct:
			if depth > 0 {
				for _, p := range e.sliceFieldPaths(ft, depth-1) {
					out = append(out, append([]int{i}, p...))
				}
			}
		}
	}
	return out
}

func (e *Engine) jsonLenFn(t types.Type, path []int) (fn string, sel func(v string) string) {
	name := mangle(typeKey(t))
	cur := t
	var steps []string
	for _, i := range path {
		ss := e.vc.structInfo(cur)
		name += "_" + ss.fnames[i]
		steps = append(steps, ss.fields[i])
		cur = ss.ftypes[i]
	}
	fn = "jsonlen_" + name
	e.declAddr()
	e.vc.declFun(fn, []string{"BV"}, "Int")
	return fn, func(v string) string {
		for _, s := range steps {
			v = app(s, v)
		}
		return v
	}
}

func init() {
	libSpecs["encoding/json.Unmarshal"] = func(c *callCtx) Val {
		e := c.e()
		mi, ok := c.common.Args[1].(*ssa.MakeInterface)
		if !ok || kindOf(mi.X.Type()) != kPtr {
			return c.fr.havocCall(c, false)
		}
		pt := types.Unalias(mi.X.Type()).Underlying().(*types.Pointer)
		el := pt.Elem()
		if kindOf(el) != kStruct || e.vc.structInfo(el) == nil || e.vc.structInfo(el).opaque {
			return c.fr.havocCall(c, false)
		}
		p := c.fr.get(mi.X)
		nv := e.freshVal(c.st, "decoded", el)
		c.fr.store(c.st, c.fr.addrOf(p), nv)
		er := e.vc.fresh("jsonerr", "Iface")
		data := e.bvOf(c.st, c.args[0])
		// whether the input decodes into this type is a function of the input bytes: jsonok("T", data) in contracts
		okfn := "jsonok_" + mangle(typeKey(el))
		e.declAddr()
		e.vc.declFun(okfn, []string{"BV"}, "Bool")
		e.assumeIn(c.st, eq(eq(er, "iface_nil"), app(okfn, data)))
		for _, path := range e.sliceFieldPaths(el, 2) {
			fn, sel := e.jsonLenFn(el, path)
			e.assumeIn(c.st, implies(eq(er, "iface_nil"), eq(app("slen", sel(nv.S)), app(fn, data))))
		}
		return c.ret(er)
	}
	libMods["encoding/json.Unmarshal"] = func(e *Engine, cc *ssa.CallCommon) []string {
		if mi, ok := cc.Args[1].(*ssa.MakeInterface); ok {
			return e.reachableHeaps(mi.X.Type())
		}
		return []string{"G_*"}
	}
	libSpecs["reflect.DeepEqual"] = func(c *callCtx) Val {
		e := c.e()
		ma, ok1 := c.common.Args[0].(*ssa.MakeInterface)
		mb, ok2 := c.common.Args[1].(*ssa.MakeInterface)
		r := e.vc.fresh("deepeq", "Bool")
		if ok1 && ok2 && kindOf(ma.X.Type()) == kSlice && types.Identical(ma.X.Type(), mb.X.Type()) {
			a, b := c.fr.get(ma.X), c.fr.get(mb.X)
			e.assumeIn(c.st, implies(r, eq(app("slen", a.S), app("slen", b.S))))
			sl := types.Unalias(a.T).Underlying().(*types.Slice)
			switch kindOf(sl.Elem()) {
			case kInt, kStr, kBool:
				hn, hs := e.vc.arrHeapName(sl.Elem())
				h := e.heap(c.st, hn, hs)
				aa, ab := app("select", h, app("sptr", a.S)), app("select", h, app("sptr", b.S))
				e.assumeIn(c.st, implies(r, fmt.Sprintf("(forall ((j Int)) (! (=> (and (<= 0 j) (< j (slen %s))) (= (select %s (idx (soff %s) j)) (select %s (idx (soff %s) j)))) :pattern ((select %s (idx (soff %s) j)))))",
					a.S, aa, a.S, ab, b.S, aa, a.S)))
			}
		}
		return c.ret(r)
	}
}
