package main

// Callback iterations (staking Iterate*, collections Walk): the callee visits the elements of an abstract
// sequence in order and calls the closure on each until it asks to stop. They are verified like loops: the
// contract supplies `iter N invariant` clauses over the captured variables, $k (number of elements processed
// so far) and $n (length of the sequence).

import (
	"fmt"
	"go/token"
	"go/types"
	"sort"
	"strings"

	"golang.org/x/tools/go/ssa"
)

type iterSpec struct {
	name    string
	n       string                // length of the sequence (>= 0)
	elem    func(k string) []Val  // callback arguments for element k
	stopIdx int                   // index of the "stop" result of the callback
	errIdx  int                   // index of the error result of the callback (-1: none)
}

// iterOrdinals: iteration call sites of fn in source order.
func (fr *Frame) iterOrdinal(instr ssa.CallInstruction) int {
	if fr.iterOrd == nil {
		fr.iterOrd = map[ssa.Instruction]int{}
		type site struct {
			in  ssa.Instruction
			pos token.Pos
		}
		var sites []site
		for _, b := range fr.fn.Blocks {
			for _, in := range b.Instrs {
				if ci, ok := in.(ssa.CallInstruction); ok && isIterationCall(ci.Common()) {
					sites = append(sites, site{in, in.Pos()})
				}
			}
		}
		sort.Slice(sites, func(i, j int) bool { return sites[i].pos < sites[j].pos })
		for i, s := range sites {
			fr.iterOrd[s.in] = i
		}
	}
	return fr.iterOrd[instr.(ssa.Instruction)]
}

func isIterationCall(cc *ssa.CallCommon) bool {
	if cc.IsInvoke() {
		switch cc.Method.Name() {
		case "IterateDelegatorDelegations", "IterateDelegatorUnbondingDelegations", "IterateBondedValidatorsByPower":
			return true
		}
		return false
	}
	if c := cc.StaticCallee(); c != nil {
		n := c.String()
		if o := c.Origin(); o != nil {
			n = o.String()
		}
		return strings.Contains(n, "cosmossdk.io/collections") && strings.HasSuffix(n, ").Walk")
	}
	return false
}

// iterate runs the verification scheme for one callback iteration. It returns the value of the "error"
// the iteration call yields (iface_nil unless a callback returned an error) and leaves ctx.st as the post-state.
func (fr *Frame) iterate(ctx *callCtx, clo *closureVal, spec iterSpec) string {
	e := fr.e
	st := ctx.st
	ord := fr.iterOrdinal(ctx.instr)
	var invs []Clause
	if fr.contract != nil && fr.top {
		invs = fr.contract.IterInv[ord]
	}
	blk := ctx.instr.(ssa.Instruction).Block()
	envMap := fr.envAt[blk.Index]
	mkEnv := func(s *State, k string) *evalEnv {
		lookup := func(name string) (Val, bool) {
			switch name {
			case "$k":
				return Val{S: k, T: specInt}, true
			case "$n":
				return Val{S: spec.n, T: specInt}, true
			}
			return fr.lookupVar(name, envMap, s)
		}
		return &evalEnv{e: e, st: s, old: fr.entry, lookup: lookup, fr: fr}
	}
	e.vc.assume(app(">=", spec.n, "0"))
	// 1. invariant holds before the first element
	env0 := mkEnv(st, "0")
	for _, inv := range invs {
		e.addObl(st, fmt.Sprintf("iter%d.inv.init", ord), fr.lbl(inv.label), e.evalBool(inv.expr, env0), ctx.pos)
	}
	// 2. arbitrary point of the iteration: everything the callback can write is havocked
	ghostW := fr.applyClosureEffects(st, clo)
	if ghostW {
		e.havocGhost(st)
	}
	{
		// the call log of everything the callback may call is unknown at an arbitrary point of the iteration
		lh := map[string]string{}
		fr.loopLogHeaps(clo.fn, nil, 0, lh, map[*ssa.Function]bool{clo.fn: true})
		e.havocLogHeaps(st, lh)
	}
	k := e.vc.fresh("iter_k", "Int")
	e.assumeIn(st, and(app("<=", "0", k), app("<=", k, spec.n)))
	envK := mkEnv(st, k)
	for _, inv := range invs {
		e.assumeIn(st, e.evalBool(inv.expr, envK))
	}
	// 3. exhausted: k == n
	exh := st.clone()
	exh.cond = e.vc.define("iter_exh", "Bool", and(st.cond, eq(k, spec.n)))
	// 4. one more element: run the callback on element k
	body := st.clone()
	body.cond = e.vc.define("iter_body", "Bool", and(st.cond, app("<", k, spec.n)))
	bctx := &callCtx{fr: fr, st: body, instr: ctx.instr, common: ctx.common, rt: clo.fn.Signature.Results(), pos: ctx.pos}
	if clo.fn.Signature.Results().Len() == 1 {
		bctx.rt = clo.fn.Signature.Results().At(0).Type()
	}
	r := fr.inline(bctx, clo.fn, clo.bindings, spec.elem(k))
	if len(e.oos) > 0 {
		return "iface_nil"
	}
	var stop, cbErr string
	if len(r.Tup) > 0 {
		stop = r.Tup[spec.stopIdx].S
		if spec.errIdx >= 0 {
			cbErr = r.Tup[spec.errIdx].S
		}
	} else {
		stop = r.S
	}
	halt := stop
	if cbErr != "" {
		halt = or(stop, not(eq(cbErr, "iface_nil")))
	}
	// 5. invariant preserved when the callback asks to continue
	cont := body.clone()
	cont.cond = e.vc.define("iter_cont", "Bool", and(body.cond, not(halt)))
	envN := mkEnv(cont, app("+", k, "1"))
	for _, inv := range invs {
		e.addObl(cont, fmt.Sprintf("iter%d.inv.preserved", ord), fr.lbl(inv.label), e.evalBool(inv.expr, envN), ctx.pos)
	}
	// 6. post-state: exhausted, or stopped at element k
	stopped := body.clone()
	stopped.cond = e.vc.define("iter_stop", "Bool", and(body.cond, halt))
	m := e.mergeStates([]string{exh.cond, stopped.cond}, []*State{exh, stopped})
	*st = *m
	// expose where the iteration ended to the contract: iterk_N / iterstopped_N
	e.setHeap(st, fmt.Sprintf("iterk_%d", ord), "Int", k)
	e.setHeap(st, fmt.Sprintf("iterstopped_%d", ord), "Bool", ite(exh.cond, "false", "true"))
	if cbErr != "" {
		return e.vc.define("iter_err", "Iface", ite(and(stopped.cond, not(eq(cbErr, "iface_nil"))), cbErr, "iface_nil"))
	}
	return "iface_nil"
}

// ---------- staking: delegations and validators as ghost state ----------

const stakingT = "github.com/cosmos/cosmos-sdk/x/staking/types"

func (e *Engine) declStaking() {
	if e.vc.declared["staking"] {
		return
	}
	e.vc.declared["staking"] = true
	dt := e.prog.lookupType(stakingT + ".Delegation")
	if dt == nil {
		return
	}
	ds := e.vc.sortOf(dt)
	e.vc.declFun("dels_len", []string{"Int", "Addr"}, "Int")
	e.vc.declFun("dels_at", []string{"Int", "Addr", "Int"}, ds)
	e.vc.declFun("valbv", []string{"Str"}, "BV")
	e.vc.declFun("valbech32ok", []string{"Str"}, "Bool")
	e.vc.declFun("tfs_x", []string{"Int", "Int", "Int"}, "Int")
	e.vc.declFun("tfs", []string{"Int", "Int", "Int"}, "Int")
	e.vc.declFun("tfs_trunc", []string{"Int", "Int", "Int"}, "Int")
	e.vc.declSort("(assert (forall ((s Int) (a Addr)) (! (>= (dels_len s a) 0) :pattern ((dels_len s a)))))")
	e.vc.declSort("(assert (forall ((t Int) (d Int) (s Int)) (! (=> (not (= d 0)) (and (is_tdiv (* (* s t) 1000000000000000000000000000000000000) d (tfs_x t d s)) (is_round_he (tfs_x t d s) (tfs t d s)))) :pattern ((tfs t d s)))))")
	e.vc.declSort("(assert (forall ((t Int) (d Int) (s Int)) (! (=> (not (= d 0)) (and (is_tdiv (* (* s t) 1000000000000000000000000000000000000) d (tfs_x t d s)) (is_tdiv (tfs_x t d s) 1000000000000000000 (tfs_trunc t d s)))) :pattern ((tfs_trunc t d s)))))")
}

func (e *Engine) stakingEpoch(st *State) string { return e.heap(st, "G_staking_epoch", "Int") }

// tokensFromShares: shares.MulInt(tokens).Quo(delegatorShares) (banker's rounding) as a function with its
// defining (relational) facts asserted at every use.
func (e *Engine) tokensFromShares(tokens, dshares, shares string, truncated bool) string {
	e.declStaking()
	if truncated {
		return app("tfs_trunc", tokens, dshares, shares)
	}
	return app("tfs", tokens, dshares, shares)
}

func init() {
	invokeByMethod["IterateDelegatorDelegations"] = func(c *callCtx) (Val, bool) {
		if !strings.HasSuffix(namedPath(c.common.Value.Type()), ".StakingKeeper") {
			return Val{}, false
		}
		e := c.e()
		e.declStaking()
		cb := c.args[3]
		if cb.Clo == nil {
			return c.fr.havocCall(c, true), true
		}
		del := e.accAddr(c.st, c.args[2])
		ep := e.stakingEpoch(c.st)
		dt := e.prog.lookupType(stakingT + ".Delegation")
		spec := iterSpec{name: "delegations", n: e.vc.define("ndel", "Int", app("dels_len", ep, del)), stopIdx: 0, errIdx: -1,
			elem: func(k string) []Val {
				v := e.vc.define("del", e.vc.sortOf(dt), app("dels_at", ep, del, k))
				e.vc.assume(e.typeInv(v, dt))
				return []Val{{S: v, T: dt}}
			}}
		c.fr.iterate(c, cb.Clo, spec)
		return c.ret("iface_nil"), true
	}
	methodMods["IterateDelegatorDelegations"] = []string{}
	// ValidatorSet.IterateBondedValidatorsByPower(ctx, fn(index, validator) stop): the bonded validators in power
	// order, as an abstract sequence of unconstrained ValidatorI values (their methods are unconstrained reads)
	invokeByMethod["IterateBondedValidatorsByPower"] = func(c *callCtx) (Val, bool) {
		e := c.e()
		if len(c.args) < 3 || c.args[2].Clo == nil {
			return Val{}, false
		}
		e.vc.declFun("bonded_len", []string{"Int"}, "Int")
		e.vc.declFun("bonded_at", []string{"Int", "Int"}, "Iface")
		e.vc.declSort("(assert (forall ((s Int)) (! (>= (bonded_len s) 0) :pattern ((bonded_len s)))))")
		ep := e.stakingEpoch(c.st)
		sig := c.args[2].Clo.fn.Signature
		spec := iterSpec{name: "bonded_validators", n: e.vc.define("nbonded", "Int", app("bonded_len", ep)), stopIdx: 0, errIdx: -1,
			elem: func(k string) []Val {
				v := e.vc.define("bval", "Iface", app("bonded_at", ep, k))
				e.vc.assume(not(eq(v, "iface_nil")))
				return []Val{{S: k, T: sig.Params().At(0).Type()}, {S: v, T: sig.Params().At(1).Type()}}
			}}
		c.fr.iterate(c, c.args[2].Clo, spec)
		return c.ret("iface_nil"), true
	}
	methodMods["IterateBondedValidatorsByPower"] = []string{}
	invokeByMethod["GetValidator"] = func(c *callCtx) (Val, bool) {
		if !strings.HasSuffix(namedPath(c.common.Value.Type()), ".StakingKeeper") {
			return Val{}, false
		}
		e := c.e()
		g := e.ghosts["G_staking_validators"]
		k := e.bvOf(c.st, c.args[2])
		dom := app("select", e.heap(c.st, g.name+"_d", e.heapSorts[g.name+"_d"]), k)
		val := e.vc.define("val", g.vsort, app("select", e.heap(c.st, g.name+"_v", e.heapSorts[g.name+"_v"]), k))
		e.assumeIn(c.st, e.typeInv(val, g.vt))
		er := c.freshErr("valerr")
		return c.tuple(val, ite(dom, "iface_nil", er)), true
	}
	methodMods["GetValidator"] = []string{}
	libSpecs["github.com/cosmos/cosmos-sdk/types.ValAddressFromBech32"] = func(c *callCtx) Val {
		e := c.e()
		e.declStaking()
		tt := c.rt.(*types.Tuple)
		ok := e.vc.define("vb32ok", "Bool", app("valbech32ok", c.args[0].S))
		v := e.freshVal(c.st, "valaddr", tt.At(0).Type())
		e.assumeIn(c.st, implies(ok, eq(e.bvOf(c.st, v), app("valbv", c.args[0].S))))
		er := c.freshErr("vb32err")
		return Val{T: c.rt, Tup: []Val{v, {S: ite(ok, "iface_nil", er), T: tt.At(1).Type()}}}
	}
	vm := "(" + stakingT + ".Validator)."
	libSpecs[vm+"IsBonded"] = func(c *callCtx) Val {
		ss := c.e().vc.structInfo(c.args[0].T)
		return c.ret(eq(app(fieldSel(ss, "Status"), c.args[0].S), "3"))
	}
	libSpecs[vm+"IsUnbonding"] = func(c *callCtx) Val {
		ss := c.e().vc.structInfo(c.args[0].T)
		return c.ret(eq(app(fieldSel(ss, "Status"), c.args[0].S), "2"))
	}
	libSpecs[vm+"IsUnbonded"] = func(c *callCtx) Val {
		ss := c.e().vc.structInfo(c.args[0].T)
		return c.ret(eq(app(fieldSel(ss, "Status"), c.args[0].S), "1"))
	}
	libSpecs[vm+"GetOperator"] = func(c *callCtx) Val {
		ss := c.e().vc.structInfo(c.args[0].T)
		return c.ret(app(fieldSel(ss, "OperatorAddress"), c.args[0].S))
	}
	libSpecs[vm+"GetTokens"] = func(c *callCtx) Val {
		ss := c.e().vc.structInfo(c.args[0].T)
		return c.ret(app(fieldSel(ss, "Tokens"), c.args[0].S))
	}
	// GetConsensusPower(r): tokens / r for a bonded validator, 0 otherwise (cosmos-sdk v0.50.9 x/staking/types/validator.go;
	// the int64 conversion of the quotient panics out of range: obligation)
	libSpecs[vm+"GetConsensusPower"] = func(c *callCtx) Val {
		e := c.e()
		ss := e.vc.structInfo(c.args[0].T)
		tok := app(fieldSel(ss, "Tokens"), c.args[0].S)
		bonded := eq(app(fieldSel(ss, "Status"), c.args[0].S), "3")
		c.obl("panic.lib", "GetConsensusPower_reduction_is_zero", not(eq(c.args[1].S, "0")))
		q := e.vc.define("cpow", "Int", ite(bonded, app("tdiv", tok, c.args[1].S), "0"))
		c.obl("panic.lib", "GetConsensusPower_fits_int64", and(app("<=", "(- 9223372036854775808)", q), app("<=", q, "9223372036854775807")))
		return c.ret(q)
	}
	libSpecs[vm+"GetStatus"] = func(c *callCtx) Val {
		ss := c.e().vc.structInfo(c.args[0].T)
		return c.ret(app(fieldSel(ss, "Status"), c.args[0].S))
	}
	tfs := func(trunc bool) specFn {
		return func(c *callCtx) Val {
			e := c.e()
			ss := e.vc.structInfo(c.args[0].T)
			tok, ds := app(fieldSel(ss, "Tokens"), c.args[0].S), app(fieldSel(ss, "DelegatorShares"), c.args[0].S)
			c.obl("panic.lib", "Validator.TokensFromShares_zero_delegator_shares", not(eq(ds, "0")))
			if trunc {
				// TokensFromSharesTruncated returns a Dec: truncated quotient scaled back
				return c.def("tfs", app("*", e.tokensFromShares(tok, ds, c.args[1].S, true), "1"))
			}
			return c.def("tfs", e.tokensFromShares(tok, ds, c.args[1].S, false))
		}
	}
	libSpecs[vm+"TokensFromShares"] = tfs(false)
	libSpecs[vm+"TokensFromSharesTruncated"] = tfs(true)
}

func fieldSel(ss *structSort, name string) string {
	for i, n := range ss.fnames {
		if n == name {
			return ss.fields[i]
		}
	}
	return "missing_field_" + name
}
