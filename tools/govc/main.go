package main

import (
	"encoding/json"
	"fmt"
	"os"
	"sort"
	"strings"
	"time"
)

func usage() {
	fmt.Fprintln(os.Stderr, "usage: govc fn <funcKey>... | list | check <property> [--tier quick|thorough]")
	os.Exit(2)
}

func main() {
	if len(os.Args) < 2 {
		usage()
	}
	switch os.Args[1] {
	case "list":
		p, err := loadProg(nil)
		if err != nil {
			fmt.Fprintln(os.Stderr, err)
			os.Exit(3)
		}
		for _, k := range p.sortedFuncKeys() {
			fmt.Println(k)
		}
	case "fn":
		cmdFn(os.Args[2:])
	case "check":
		cmdCheck(os.Args[2:])
	case "sweep":
		cmdSweep(os.Args[2:])
	case "loops":
		cmdLoops(os.Args[2:])
	case "manifest":
		cmdManifest()
	case "baseline":
		cmdBaseline(os.Args[2:])
	default:
		usage()
	}
}

func cmdFn(args []string) {
	t0 := time.Now()
	var keys []string
	dump := false
	secs := 10
	for _, a := range args {
		if a == "--dump" {
			dump = true
		} else if strings.HasPrefix(a, "--secs=") {
			fmt.Sscan(strings.TrimPrefix(a, "--secs="), &secs)
		} else {
			keys = append(keys, a)
		}
	}
	p, err := loadProg(nil)
	if err != nil {
		fmt.Fprintln(os.Stderr, err)
		os.Exit(3)
	}
	for _, d := range p.loadContracts() {
		fmt.Println("CONTRACT-DIAG:", d)
	}
	fmt.Printf("loaded in %.1fs, %d functions, %d contracts\n", time.Since(t0).Seconds(), len(p.Funcs), len(p.Contracts))
	for _, k := range keys {
		var matches []string
		for fk := range p.Funcs {
			if fk == k || strings.HasSuffix(fk, "."+k) {
				matches = append(matches, fk)
			}
		}
		sort.Strings(matches)
		if len(matches) == 0 {
			fmt.Println("no such function:", k)
			continue
		}
		for _, fk := range matches {
			r := verifyFunc(p, fk)
			dir := "/tmp/govc-smt/" + mangle(fk)
			os.RemoveAll(dir)
			discharge(r.Obls, dir, secs, 16)
			fmt.Printf("== %s  contract=%v obligations=%d\n", fk, r.HasContract, len(r.Obls))
			for _, s := range r.OutOfSubset {
				fmt.Println("   OUT-OF-SUBSET:", s)
			}
			for _, s := range r.ContractErrs {
				fmt.Println("   CONTRACT-ERR:", s)
			}
			for _, n := range r.Notes {
				fmt.Println("   note:", n)
			}
			for _, o := range r.Obls {
				fmt.Printf("   %-11s %-8s %5dms  %s  (%s)\n", o.Status, o.Solver, o.Ms, o.Name, o.Pos)
				if dump && o.Status != "discharged" && !(o.Kind == "vacuity" && o.Status == "failed") {
					fmt.Println(indent(o.Model, "        "))
				}
			}
		}
	}
	_ = json.Marshal
}

func indent(s, p string) string {
	ls := strings.Split(strings.TrimSpace(s), "\n")
	if len(ls) > 60 {
		ls = ls[:60]
	}
	return p + strings.Join(ls, "\n"+p)
}


func cmdSweep(args []string) {
	p, err := loadProg(nil)
	if err != nil {
		fmt.Fprintln(os.Stderr, err)
		os.Exit(3)
	}
	for _, a := range args {
		sr := runSweep(p, a)
		fmt.Println("==", sr.Name, "--", sr.Explanation)
		for _, s := range sr.Sites {
			fmt.Println("  ", s)
		}
	}
}

func cmdLoops(args []string) {
	p, err := loadProg(nil)
	if err != nil {
		fmt.Fprintln(os.Stderr, err)
		os.Exit(3)
	}
	for _, k := range args {
		for fk, fn := range p.Funcs {
			if fk == k || strings.HasSuffix(fk, "."+k) {
				e := newEngine(p, fn)
				fr := e.newFrame(fn, 0)
				fmt.Println("==", fk)
				for _, li := range fr.loopList {
					var bs []int
					for b := range li.blocks {
						bs = append(bs, b)
					}
					sort.Ints(bs)
					fmt.Printf("  loop %d header=%d blocks=%v finger=%q\n", li.ordinal, li.header.Index, bs, li.finger)
					var names []string
					if idom := li.header.Idom(); idom != nil {
						for n := range fr.envAt[idom.Index] {
							names = append(names, n)
						}
					}
					sort.Strings(names)
					fmt.Printf("     names at header: %v\n", names)
				}
			}
		}
	}
}
