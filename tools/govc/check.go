package main

import (
	"bufio"
	"encoding/json"
	"fmt"
	"os"
	"os/exec"
	"path/filepath"
	"sort"
	"strconv"
	"strings"
	"time"
)

const verifDir = "/verif"

// outDir receives evidence/ and replays/: /verif, or a scratch directory for seeded-change corpus runs (GOVC_OUT)
var outDir = envOr("GOVC_OUT", verifDir)

type FuncClaim struct {
	Key     string
	NoPanic bool // every panic obligation of this function is claimed (must discharge)
}

type PropDef struct {
	ID          string
	Title       string
	Funcs       []FuncClaim
	Sweeps      []string
	Assumptions []string
	NotDecided  []string
	Bounded     []string
	LevelText   string
	LevelNote   string
	Technique   string
	LockEntries bool // also verify every function that received the default lock entry contract (autoLockEntries)
}

type KnownFinding struct {
	Property   string `json:"property"`
	Obligation string `json:"obligation"`
	Witness    string `json:"witness"`
	Status     string `json:"status"` // open | fixed
	Commit     string `json:"commit,omitempty"`
	What       string `json:"what"`
	Replay     string `json:"replay,omitempty"`
}

func loadKnownFindings() []KnownFinding {
	var out []KnownFinding
	f, err := os.Open(filepath.Join(envOr("GOVC_FROZEN", verifDir), "known_findings.jsonl"))
	if err != nil {
		return nil
	}
	defer f.Close()
	sc := bufio.NewScanner(f)
	sc.Buffer(make([]byte, 1<<20), 1<<20)
	for sc.Scan() {
		ln := strings.TrimSpace(sc.Text())
		if ln == "" || strings.HasPrefix(ln, "#") {
			continue
		}
		var k KnownFinding
		if json.Unmarshal([]byte(ln), &k) == nil {
			out = append(out, k)
		}
	}
	return out
}

type Baseline map[string]map[string]string // property -> obligation name -> status

func loadBaseline() Baseline {
	b := Baseline{}
	data, err := os.ReadFile(filepath.Join(envOr("GOVC_FROZEN", verifDir), "baseline", "obligations.json"))
	if err != nil {
		return b
	}
	json.Unmarshal(data, &b)
	return b
}

var trustedBase = []string{
	"T1 govc: SSA->SMT semantics of DESIGN.md 2.3 (machine integers modelled exactly as wrapped Int; math.Int/LegacyDec/big.Int unbounded)",
	"T2 SMT solvers z3 4.8.12, z3 5.1.0 (z3-new), cvc5 1.0.3 (an obligation is discharged when any of them answers unsat)",
	"T3 library specifications in tools/govc/specs*.go for cosmossdk.io/math, math/big, time, errors, fmt, sort, strings, sdk.Coin(s), collections, bank/staking keepers (assumed, not verified)",
	"T4 keeper-interface -> implementation binding by naming convention (x/<m>/types.<M>Keeper -> x/<m>/keeper.Keeper), as wired in app/app.go",
	"T5 no aliasing between distinct pointer/slice parameters; append always reallocates; no concurrency in keeper code",
	"T6 store and codec operations do not fail",
}

var extractionDrops = []string{
	"logging (Logger calls), telemetry, event emission: treated as having no effect on verified state",
	"deferred Close/Unlock/telemetry calls: no effect except ghost lock state",
	"fmt.Sprintf/Errorf message contents: results are unconstrained strings / non-nil errors",
	"capacity of slices is not tracked (slicing beyond len is treated as a bounds violation)",
}

type checkOpts struct {
	tier       string
	secs       int
	workers    int
	seed       int64
	noPriority bool
}

type propRun struct {
	def      *PropDef
	results  []*FuncResult
	sweepRes []*SweepResult
}

func cmdCheck(args []string) {
	if len(args) < 1 {
		usage()
	}
	id := args[0]
	opts := checkOpts{tier: "quick", secs: 30, workers: 10}
	if t := os.Getenv("VERIF_TIER"); t != "" {
		opts.tier = t
	}
	for i := 1; i < len(args); i++ {
		switch {
		case args[i] == "--tier" && i+1 < len(args):
			opts.tier = args[i+1]
			i++
		case strings.HasPrefix(args[i], "--tier="):
			opts.tier = strings.TrimPrefix(args[i], "--tier=")
		}
	}
	if opts.tier == "thorough" {
		opts.secs = 120
	}
	if s := os.Getenv("VERIF_SEED"); s != "" {
		opts.seed, _ = strconv.ParseInt(s, 10, 64)
	}
	def := propDefs[id]
	if def == nil {
		fmt.Fprintln(os.Stderr, "unknown property", id)
		os.Exit(2)
	}
	t0 := time.Now()
	p, err := loadProg(nil)
	if err != nil {
		fmt.Fprintln(os.Stderr, "govc: cannot load /repo with -tags verif:", err)
		os.Exit(3)
	}
	diags := p.loadContracts()
	run := runProperty(p, def, opts)
	if opts.tier == "thorough" && os.Getenv("GOVC_REPO") == "" && os.Getenv("GOVC_NO_SELFTEST") == "" {
		selftestResults = runSelftest(id)
		neutralResults = runNeutralSelftest(id)
	}
	code := report(p, run, opts, diags, time.Since(t0))
	os.Exit(code)
}

// selftestResults: outcome of the must-fail selftest of the thorough tier (evidence only, never a verdict).
var selftestResults []map[string]any
var neutralResults []map[string]any

// runSelftest re-runs this property's quick check against every stored seeded change of the property
// (/verif/seeded/<name>/patch.diff applied to a scratch copy of /repo under the system temp directory, removed
// afterwards). Each is a change that compiles, keeps the existing tests green and breaks the property; the check
// must report a violation on it. The result is written into the evidence (coverage.must_fail_selftest); it says
// how sharp the check is and has no influence on the verdict about the tree under verification.
func runSelftest(id string) []map[string]any {
	out := []map[string]any{}
	dirs, _ := filepath.Glob(filepath.Join(verifDir, "seeded", "*", "meta.json"))
	sort.Strings(dirs)
	deadline := time.Now().Add(6 * time.Minute)
	self, err := os.Executable()
	if err != nil {
		return out
	}
	for _, mf := range dirs {
		b, err := os.ReadFile(mf)
		if err != nil {
			continue
		}
		var meta struct {
			Property string `json:"property"`
		}
		if json.Unmarshal(b, &meta) != nil || meta.Property != id {
			continue
		}
		name := filepath.Base(filepath.Dir(mf))
		res := map[string]any{"seeded_change": name}
		out = append(out, res)
		if time.Now().After(deadline) {
			res["result"] = "skipped (selftest time budget used up)"
			continue
		}
		tmp, err := os.MkdirTemp("", "govc-selftest-")
		if err != nil {
			res["result"] = "skipped (no scratch directory)"
			continue
		}
		tree := filepath.Join(tmp, "tree")
		cp := exec.Command("rsync", "-a", "--exclude", ".git", repoDir+"/", tree+"/")
		if err := cp.Run(); err != nil {
			res["result"] = "skipped (copy failed)"
			os.RemoveAll(tmp)
			continue
		}
		ap := exec.Command("git", "apply", filepath.Join(filepath.Dir(mf), "patch.diff"))
		ap.Dir = tree
		if err := ap.Run(); err != nil {
			res["result"] = "skipped (the change does not apply to the tree under verification)"
			os.RemoveAll(tmp)
			continue
		}
		cmd := exec.Command(self, "check", id, "--tier", "quick")
		cmd.Env = append(os.Environ(), "GOVC_REPO="+tree, "GOVC_OUT="+filepath.Join(tmp, "out"))
		ob, _ := cmd.Output()
		nviol := strings.Count(string(ob), "\nVIOLATION ") + boolInt(strings.HasPrefix(string(ob), "VIOLATION "))
		code := -1
		if cmd.ProcessState != nil {
			code = cmd.ProcessState.ExitCode()
		}
		res["exit"] = code
		res["violations"] = nviol
		if code == 1 && nviol > 0 {
			res["result"] = "caught"
			for _, ln := range strings.Split(string(ob), "\n") {
				if strings.HasPrefix(ln, "VIOLATION ") {
					if i := strings.Index(ln, "obligation="); i >= 0 {
						o := ln[i+len("obligation="):]
						if j := strings.Index(o, " "); j > 0 {
							o = o[:j]
						}
						res["first_failing_obligation"] = o
					}
					break
				}
			}
		} else {
			res["result"] = "MISSED"
		}
		os.RemoveAll(tmp)
	}
	return out
}

// runNeutralSelftest: the counterpart of runSelftest for the stored semantics-preserving edits (/verif/neutral): the
// quick check must stay silent on each of them. Evidence only.
func runNeutralSelftest(id string) []map[string]any {
	out := []map[string]any{}
	metas, _ := filepath.Glob(filepath.Join(verifDir, "neutral", "*", "meta.json"))
	sort.Strings(metas)
	self, err := os.Executable()
	if err != nil {
		return out
	}
	deadline := time.Now().Add(3 * time.Minute)
	for _, mf := range metas {
		b, err := os.ReadFile(mf)
		if err != nil {
			continue
		}
		var meta struct {
			Checks string `json:"checks"`
		}
		if json.Unmarshal(b, &meta) != nil || !contains(strings.Fields(meta.Checks), id) {
			continue
		}
		res := map[string]any{"neutral_edit": filepath.Base(filepath.Dir(mf))}
		out = append(out, res)
		if time.Now().After(deadline) {
			res["result"] = "skipped (selftest time budget used up)"
			continue
		}
		tmp, err := os.MkdirTemp("", "govc-neutral-")
		if err != nil {
			res["result"] = "skipped (no scratch directory)"
			continue
		}
		tree := filepath.Join(tmp, "tree")
		if err := exec.Command("rsync", "-a", "--exclude", ".git", repoDir+"/", tree+"/").Run(); err != nil {
			res["result"] = "skipped (copy failed)"
			os.RemoveAll(tmp)
			continue
		}
		ap := exec.Command("git", "apply", filepath.Join(filepath.Dir(mf), "patch.diff"))
		ap.Dir = tree
		if err := ap.Run(); err != nil {
			res["result"] = "skipped (the edit does not apply to the tree under verification)"
			os.RemoveAll(tmp)
			continue
		}
		cmd := exec.Command(self, "check", id, "--tier", "quick")
		cmd.Env = append(os.Environ(), "GOVC_REPO="+tree, "GOVC_OUT="+filepath.Join(tmp, "out"))
		ob, _ := cmd.Output()
		code := -1
		if cmd.ProcessState != nil {
			code = cmd.ProcessState.ExitCode()
		}
		res["exit"] = code
		if code == 0 && !strings.Contains(string(ob), "\nVIOLATION ") && !strings.HasPrefix(string(ob), "VIOLATION ") {
			res["result"] = "silent"
		} else {
			res["result"] = "ALARM"
		}
		os.RemoveAll(tmp)
	}
	return out
}

func boolInt(b bool) int {
	if b {
		return 1
	}
	return 0
}

func runProperty(p *Prog, def *PropDef, opts checkOpts) *propRun {
	run := &propRun{def: def}
	dir, _ := os.MkdirTemp("", "govc-"+def.ID+"-")
	defer os.RemoveAll(dir)
	var all []*Obligation
	for _, fc := range def.Funcs {
		r := verifyFunc(p, fc.Key)
		run.results = append(run.results, r)
		all = append(all, r.Obls...)
	}
	if def.LockEntries {
		for _, k := range p.AutoEntries {
			r := verifyFunc(p, k)
			run.results = append(run.results, r)
			all = append(all, r.Obls...)
		}
	}
	for _, sw := range def.Sweeps {
		sr := runSweep(p, sw)
		run.sweepRes = append(run.sweepRes, sr)
		all = append(all, sr.Obls...)
	}
	if base := loadBaseline()[def.ID]; len(base) > 0 && !opts.noPriority {
		for _, o := range all {
			if base[o.Name] == "discharged" {
				o.priority = true
			}
		}
	}
	discharge(all, dir, opts.secs, opts.workers)
	return run
}

func claimedKind(o *Obligation, noPanic bool) bool {
	switch {
	case o.Kind == "cover":
		return false
	case strings.HasPrefix(o.Kind, "panic"):
		return noPanic
	}
	return true
}

type obSample struct {
	Name   string `json:"obligation"`
	Status string `json:"status"`
	Solver string `json:"solver,omitempty"`
	Ms     int64  `json:"ms"`
}

func report(p *Prog, run *propRun, opts checkOpts, diags []string, wall time.Duration) int {
	def := run.def
	id := def.ID
	base := loadBaseline()[id]
	known := loadKnownFindings()
	openKF := map[string]KnownFinding{}
	for _, k := range known {
		if k.Property == id && k.Status == "open" {
			openKF[k.Obligation] = k
		}
	}
	cur := map[string]*Obligation{}
	noPanicFn := map[string]bool{}
	for _, fc := range def.Funcs {
		noPanicFn[fc.Key] = fc.NoPanic
	}
	var allObls []*Obligation
	for _, r := range run.results {
		allObls = append(allObls, r.Obls...)
	}
	for _, sr := range run.sweepRes {
		allObls = append(allObls, sr.Obls...)
	}
	for _, o := range allObls {
		cur[o.Name] = o
	}
	violations := 0
	var lines []string
	var undecided []string
	var kfSeen []string
	replayDir := filepath.Join(outDir, "replays", id)
	violate := func(o *Obligation, name, why string) {
		violations++
		os.MkdirAll(replayDir, 0o755)
		path := filepath.Join(replayDir, mangle(name)+".json")
		rec := map[string]any{"property": id, "obligation": name, "reason": why}
		suffix := " no-failing-input-found"
		if o != nil {
			rec["status"] = o.Status
			rec["solver"] = o.Solver
			rec["solver_output"] = o.Model
			rec["position"] = o.Pos
			if (o.Status == "failed" || o.Status == "undecided") && o.Kind != "vacuity" && o.Kind != "cover" && !strings.HasPrefix(o.Kind, "frame") {
				rp := tryReplay(p, o, replayDir)
				rec["replay"] = rp
				if rp != nil && rp.Reproduced {
					suffix = ""
				}
			}
		}
		b, _ := json.MarshalIndent(rec, "", " ")
		os.WriteFile(path, b, 0o644)
		lines = append(lines, fmt.Sprintf("VIOLATION property=%s replay=%s obligation=%s (%s)%s", id, path, name, why, suffix))
	}
	// 1. contract/stale diagnostics for the functions of this property
	staleFns := map[string]bool{}
	for _, r := range run.results {
		if len(r.ContractErrs) > 0 || len(r.OutOfSubset) > 0 {
			staleFns[r.Key] = true
		}
	}
	staleReported := map[string]bool{}
	fnOf := func(name string) string {
		if i := strings.Index(name, "#"); i >= 0 {
			return name[:i]
		}
		return name
	}
	for _, r := range run.results {
		if !staleFns[r.Key] {
			continue
		}
		// only an alarm if something of this function was proved on the pinned tree
		had := false
		for n, s := range base {
			if s == "discharged" && fnOf(n) == r.Key {
				had = true
			}
		}
		if had {
			why := strings.Join(append(append([]string{}, r.ContractErrs...), r.OutOfSubset...), "; ")
			o := &Obligation{Name: r.Key + "#contract", Status: "undecided", Model: why}
			violate(o, r.Key+"#contract", "the contract of this function can no longer be checked against the source: "+why)
			staleReported[r.Key] = true
		}
	}
	// 2. baseline obligations must still be discharged
	var baseNames []string
	for n := range base {
		baseNames = append(baseNames, n)
	}
	sort.Strings(baseNames)
	claimed, discharged := 0, 0
	for _, n := range baseNames {
		if base[n] != "discharged" {
			continue
		}
		if staleReported[fnOf(n)] {
			claimed++
			continue
		}
		o := cur[n]
		// obligations attached to an expression of the code (an indexing, a field access, a call site), not to a clause
		// of the verified function's own contract: when the expression is gone -- moved into a helper (its obligations
		// then appear under a via: name), removed -- there is nothing left to prove at that site
		isPanic := strings.Contains(n, "#panic") || strings.Contains(n, "#guard.") || strings.Contains(n, "#lock.") || strings.Contains(n, "#call(")
		if o == nil {
			if isPanic {
				continue // the expression no longer exists
			}
			if st := pathStem(n); st != n && cur[st] != nil {
				continue // one of several paths (back edges, return sites) a clause was proved on is gone; the clause itself is still generated
			}
			claimed++
			violate(nil, n, "obligation proved on the pinned tree can no longer be generated (function or contract clause gone / stale)")
			continue
		}
		if !claimedKind(o, true) {
			continue
		}
		claimed++
		switch o.Status {
		case "discharged":
			discharged++
		case "failed":
			if k, ok := openKF[n]; ok {
				kfSeen = append(kfSeen, fmt.Sprintf("KNOWN-FINDING: property=%s %s [%s]", id, k.What, n))
				claimed--
				continue
			}
			violate(o, n, "obligation fails: solver found a counterexample")
		default:
			if k, ok := openKF[n]; ok {
				kfSeen = append(kfSeen, fmt.Sprintf("KNOWN-FINDING: property=%s %s [%s]", id, k.What, n))
				claimed--
				continue
			}
			violate(o, n, "obligation proved on the pinned tree is no longer proved ("+o.Status+")")
		}
	}
	// 3. obligations not in the baseline
	var names []string
	for n := range cur {
		names = append(names, n)
	}
	sort.Strings(names)
	for _, n := range names {
		o := cur[n]
		if _, inBase := base[n]; inBase && base[n] == "discharged" {
			continue
		}
		if o.Kind == "cover" {
			continue
		}
		if k, ok := openKF[n]; ok {
			if o.Status != "discharged" {
				kfSeen = append(kfSeen, fmt.Sprintf("KNOWN-FINDING: property=%s %s [%s]", id, k.What, n))
			}
			continue
		}
		if _, inBase := base[n]; inBase {
			// known-unproved on the pinned tree: not claimed
			continue
		}
		if !claimedKind(o, noPanicFn[o.Func]) {
			continue
		}
		switch o.Status {
		case "discharged":
			claimed++
			discharged++
		case "failed":
			claimed++
			violate(o, n, "new obligation fails: solver found a counterexample")
		default:
			// a clause of the function's own contract that was proved on the pinned tree on every path it then had,
			// and is now generated for an additional path (a new back edge, e.g. a continue) on which it is not proved
			if st := pathStem(n); st != n && base[st] == "discharged" && (strings.Contains(n, "#loop") || strings.Contains(n, "#iter") || strings.Contains(n, "#ensures") || strings.Contains(n, "#frame")) {
				claimed++
				violate(o, n, "clause proved on the pinned tree is not proved on a new path through the function ("+o.Status+")")
				continue
			}
			undecided = append(undecided, n)
		}
	}
	for _, r := range run.results {
		for _, s := range r.OutOfSubset {
			undecided = append(undecided, r.Key+": out-of-subset: "+s)
		}
		for _, s := range r.ContractErrs {
			undecided = append(undecided, r.Key+": "+s)
		}
	}
	for _, l := range kfSeen {
		fmt.Println(l)
	}
	for _, u := range undecided {
		fmt.Println("UNDECIDED:", u)
	}
	for _, l := range lines {
		fmt.Println(l)
	}
	writeEvidence(run, opts, claimed, discharged, violations, undecided, kfSeen, diags, wall, allObls)
	fmt.Printf("govc %s tier=%s functions=%d obligations=%d discharged=%d violations=%d undecided=%d known_findings=%d wall=%.1fs\n",
		id, opts.tier, len(run.results), claimed, discharged, violations, len(undecided), len(kfSeen), wall.Seconds())
	if violations > 0 {
		return 1
	}
	return 0
}

func writeEvidence(run *propRun, opts checkOpts, claimed, discharged, violations int, undecided, kf, diags []string, wall time.Duration, all []*Obligation) {
	def := run.def
	byBackend := map[string]int{}
	var solverMs int64
	var samples []obSample
	nontrivial := 0
	for _, o := range all {
		if o.Kind == "cover" {
			continue
		}
		if o.Status == "discharged" {
			byBackend[o.Solver]++
			if o.Solver != "trivial" && o.Solver != "structural" && o.Solver != "" {
				nontrivial++
			}
		}
		solverMs += o.Ms
		if len(samples) < 400 {
			samples = append(samples, obSample{o.Name, o.Status, o.Solver, o.Ms})
		}
	}
	var fns []string
	notes := map[string]bool{}
	usedContracts := map[string]bool{}
	var trusted []string
	for _, r := range run.results {
		if r.HasContract {
			fns = append(fns, r.Key)
		} else {
			fns = append(fns, r.Key+" (no contract: automatic safety obligations only)")
		}
		for _, n := range r.Notes {
			notes[n] = true
		}
		for _, c := range r.UsedContracts {
			usedContracts[c] = true
		}
		if r.Trusted {
			trusted = append(trusted, r.Key)
		}
	}
	var noteList, ucList []string
	for n := range notes {
		noteList = append(noteList, n)
	}
	sort.Strings(noteList)
	for n := range usedContracts {
		ucList = append(ucList, n)
	}
	sort.Strings(ucList)
	level := "proof"
	if claimed == 0 || discharged < claimed || len(undecided) > 0 {
		level = "other"
	}
	assumptions := append([]string{}, def.Assumptions...)
	for _, t := range trusted {
		assumptions = append(assumptions, "trusted contract (assumed, not verified): "+t)
	}
	for _, n := range noteList {
		if strings.HasPrefix(n, "unmodelled") || strings.HasPrefix(n, "approx") || strings.HasPrefix(n, "binding") {
			assumptions = append(assumptions, n)
		}
	}
	var sweeps []map[string]any
	for _, sr := range run.sweepRes {
		sweeps = append(sweeps, map[string]any{"sweep": sr.Name, "sites": sr.Sites, "explanation": sr.Explanation})
	}
	cov := map[string]any{
		"obligations":                  claimed,
		"discharged":                   discharged,
		"checker_cmd":                  fmt.Sprintf("/verif/bin/govc check %s --tier %s  (VCs generated from go/ssa of /repo's working tree with -tags verif; solvers: z3-new, z3, cvc5 raced, %ds per obligation)", def.ID, opts.tier, opts.secs),
		"trusted_base":                 trustedBase,
		"samples":                      samples,
		"explanation":                  "contract-based deductive verification: one SMT obligation per contract clause / loop invariant / call precondition / frame condition / automatic safety condition of each function under contract; see DESIGN.md",
		"functions_under_contract":     fns,
		"contracts_used_at_call_sites": ucList,
		"by_backend":                   byBackend,
		"solver_ms_total":              solverMs,
		"known_findings":               kf,
		"undecided":                    undecided,
		"extraction_drops":             extractionDrops,
		"not_decided_clauses":          def.NotDecided,
		"bounded":                      def.Bounded,
		"sweeps":                       sweeps,
		"contract_diagnostics":         diags,
		"evaluations":                  claimed,
		"distinct_nontrivial":          nontrivial,
		"rule":                         "one evaluation = one proof obligation generated from the current source (obligation names are unique); non-trivial = discharged by an SMT solver run (obligations that simplify to true syntactically and structural sweep sites are counted under evaluations only)",
	}
	if selftestResults != nil {
		cov["must_fail_selftest"] = selftestResults
	}
	if neutralResults != nil {
		cov["must_pass_selftest"] = neutralResults
	}
	ev := map[string]any{
		"property_id": def.ID,
		"tier":        opts.tier,
		"seed":        opts.seed,
		"level":       level,
		"coverage":    cov,
		"assumptions": assumptions,
		"wall_s":      wall.Seconds(),
		"violations":  violations,
	}
	os.MkdirAll(filepath.Join(outDir, "evidence"), 0o755)
	b, _ := json.MarshalIndent(ev, "", " ")
	os.WriteFile(filepath.Join(outDir, "evidence", def.ID+".json"), b, 0o644)
}

// cmdBaseline regenerates baseline/obligations.json from the current tree (run by hand on the pinned tree only).
func cmdBaseline(args []string) {
	p, err := loadProg(nil)
	if err != nil {
		fmt.Fprintln(os.Stderr, err)
		os.Exit(3)
	}
	for _, d := range p.loadContracts() {
		fmt.Println("CONTRACT-DIAG:", d)
	}
	base := loadBaseline()
	var ids []string
	for id := range propDefs {
		if len(args) == 0 || contains(args, id) {
			ids = append(ids, id)
		}
	}
	sort.Strings(ids)
	opts := checkOpts{tier: "quick", secs: 30, workers: 10, noPriority: true}
	for _, id := range ids {
		run := runProperty(p, propDefs[id], opts)
		m := map[string]string{}
		slow := 0
		for _, r := range run.results {
			for _, s := range r.OutOfSubset {
				fmt.Printf("  %s OUT-OF-SUBSET %s: %s\n", id, r.Key, s)
			}
			for _, s := range r.ContractErrs {
				fmt.Printf("  %s CONTRACT-ERR %s: %s\n", id, r.Key, s)
			}
			for _, o := range r.Obls {
				if o.Kind == "cover" {
					continue
				}
				m[o.Name] = o.Status
				if o.Status == "discharged" && o.Ms > 2000 {
					slow++
					fmt.Printf("  %s SLOW %dms %s\n", id, o.Ms, o.Name)
				}
				if o.Status != "discharged" && !strings.HasPrefix(o.Kind, "panic") {
					fmt.Printf("  %s %s %s\n", id, strings.ToUpper(o.Status), o.Name)
				}
			}
		}
		for _, sr := range run.sweepRes {
			for _, o := range sr.Obls {
				m[o.Name] = o.Status
				if o.Status != "discharged" {
					fmt.Printf("  %s %s %s\n", id, strings.ToUpper(o.Status), o.Name)
				}
			}
		}
		base[id] = m
		d := 0
		for _, s := range m {
			if s == "discharged" {
				d++
			}
		}
		fmt.Printf("%s: %d obligations, %d discharged, %d slow\n", id, len(m), d, slow)
	}
	// names in scope at the loop headers of every function with loop invariants (for following renamed locals)
	names := loadNames()
	for _, id := range ids {
		for _, fc := range propDefs[id].Funcs {
			fn := p.Funcs[fc.Key]
			c := p.Contracts[fc.Key]
			if fn == nil || c == nil || (len(c.LoopInv) == 0 && len(c.IterInv) == 0) || len(fn.Blocks) == 0 {
				continue
			}
			e := newEngine(p, fn)
			fr := e.newFrame(fn, 1)
			m := map[string]map[string]string{}
			for _, li := range fr.loopList {
				m[fmt.Sprint(li.ordinal)] = fr.headerNames(li)
			}
			for k, v := range fr.iterSiteNames() {
				m[k] = v
			}
			names[fc.Key] = m
		}
	}
	if nb, err := json.MarshalIndent(names, "", " "); err == nil {
		os.MkdirAll(filepath.Join(verifDir, "baseline"), 0o755)
		os.WriteFile(filepath.Join(verifDir, "baseline", "names.json"), nb, 0o644)
	}
	os.MkdirAll(filepath.Join(verifDir, "baseline"), 0o755)
	b, _ := json.MarshalIndent(base, "", " ")
	os.WriteFile(filepath.Join(verifDir, "baseline", "obligations.json"), b, 0o644)
}

// pathStem strips the "~K" suffix that distinguishes the instances of one clause on several paths (back edges of a
// loop, call sites of the same callee) from an obligation name.
func pathStem(n string) string {
	i := strings.LastIndex(n, "~")
	if i < 0 {
		return n
	}
	for _, c := range n[i+1:] {
		if c < '0' || c > '9' {
			return n
		}
	}
	if i+1 == len(n) {
		return n
	}
	return n[:i]
}
