package main

import (
	"bytes"
	"context"
	"fmt"
	"os"
	"os/exec"
	"path/filepath"
	"strings"
	"sync"
	"time"
)

type solverDef struct {
	name string
	args func(file string, secs int) []string
}

var solvers = []solverDef{
	// E-matching only (every quantifier carries patterns): fast on provable goals, fast "unknown" otherwise
	{"z3-new-ematch", func(f string, s int) []string {
		return []string{"z3-new", "-smt2", fmt.Sprintf("-T:%d", s), "smt.mbqi=false", "smt.auto_config=false", f}
	}},
	{"z3-new-ematch-a2", func(f string, s int) []string {
		return []string{"z3-new", "-smt2", fmt.Sprintf("-T:%d", s), "smt.mbqi=false", "smt.auto_config=false", "smt.arith.solver=2", f}
	}},
	{"z3-ematch", func(f string, s int) []string {
		return []string{"z3", "-smt2", fmt.Sprintf("-T:%d", s), "smt.mbqi=false", "smt.auto_config=false", f}
	}},
	{"cvc5-ematch", func(f string, s int) []string {
		return []string{"cvc5", "--lang=smt2", fmt.Sprintf("--tlimit=%d", s*1000), f}
	}},
	{"z3-new", func(f string, s int) []string { return []string{"z3-new", "-smt2", fmt.Sprintf("-T:%d", s), f} }},
	{"z3", func(f string, s int) []string { return []string{"z3", "-smt2", fmt.Sprintf("-T:%d", s), f} }},
	{"cvc5", func(f string, s int) []string {
		return []string{"cvc5", "--lang=smt2", fmt.Sprintf("--tlimit=%d", s*1000), "--full-saturate-quant", f}
	}},
}

type solveResult struct {
	status string // unsat, sat, unknown
	solver string
	ms     int64
	output string
}

// solveOne races the solvers on one query file.
func solveOne(file string, secs int, useSolvers []string) solveResult {
	ctx, cancel := context.WithTimeout(context.Background(), time.Duration(secs+2)*time.Second)
	defer cancel()
	type res struct {
		name, out string
		ms        int64
	}
	ch := make(chan res, len(solvers))
	n := 0
	start := time.Now()
	for _, s := range solvers {
		if len(useSolvers) > 0 && !contains(useSolvers, s.name) {
			continue
		}
		n++
		go func(s solverDef) {
			a := s.args(file, secs)
			cmd := exec.CommandContext(ctx, a[0], a[1:]...)
			var out bytes.Buffer
			cmd.Stdout = &out
			cmd.Stderr = &out
			t0 := time.Now()
			_ = cmd.Run()
			ch <- res{s.name, out.String(), time.Since(t0).Milliseconds()}
		}(s)
	}
	best := solveResult{status: "unknown"}
	var outs []string
	malformed := ""
	for i := 0; i < n; i++ {
		r := <-ch
		first := strings.TrimSpace(strings.SplitN(strings.TrimSpace(r.out), "\n", 2)[0])
		outs = append(outs, r.name+": "+first)
		if first == "unsat" || first == "sat" {
			best = solveResult{status: first, solver: r.name, ms: r.ms, output: r.out}
			cancel()
			break
		}
		if strings.HasPrefix(first, "(error") && best.output == "" {
			best.output = r.name + ": " + strings.TrimSpace(r.out)
		}
		if strings.HasPrefix(first, "(error") && strings.HasPrefix(r.name, "z3") && !strings.Contains(first, "timeout") && !strings.Contains(first, "canceled") {
			// z3 rejects the text itself: the generator produced a malformed term (an engine defect, not a property)
			malformed = r.name + ": " + first
		}
	}
	if best.status == "unknown" {
		best.ms = time.Since(start).Milliseconds()
		if best.output == "" {
			best.output = strings.Join(outs, "; ")
		}
		if malformed != "" {
			best.output = "MALFORMED-VC " + malformed + "\n" + best.output
			fmt.Fprintln(os.Stderr, "govc: MALFORMED-VC", filepath.Base(file), malformed)
		}
	}
	return best
}

func contains(xs []string, x string) bool {
	for _, y := range xs {
		if x == y {
			return true
		}
	}
	return false
}

// discharge solves all pending obligations: a first stage with the fast E-matching configurations and a short
// timeout, a second stage with every configuration for what is left, and a final sequential retry (few workers,
// long timeout) so that machine load cannot turn a provable obligation into "undecided".
func discharge(obls []*Obligation, dir string, secs, workers int) {
	stage1 := []string{"z3-new-ematch", "z3-new-ematch-a2", "cvc5-ematch"}
	s1 := secs / 4
	if s1 < 3 {
		s1 = 3
	}
	dischargeStage(obls, dir, s1, workers, stage1)
	reset := func() int {
		n := 0
		for _, o := range obls {
			if o.Kind == "cover" || (havePriority(obls) && !o.priority) {
				continue
			}
			if o.Status == "undecided" && o.Solver != "trivial" && !strings.HasPrefix(o.Model, "contract cannot") && !strings.HasPrefix(o.Model, "function outside") {
				o.Status = ""
				n++
			}
		}
		return n
	}
	if reset() > 0 {
		s2 := secs
		if !havePriority(obls) && s2 > 12 {
			s2 = 12 // baseline / development runs: anything slower than this is not claimed anyway
		}
		dischargeStage(obls, dir, s2, workers, nil)
	}
	// a handful of stragglers may be load; when many baseline obligations fail at once it is the code, and retrying
	// them all would take the check from seconds to hours
	if havePriority(obls) {
		if n := reset(); n > 0 && n <= 6 {
			dischargeStage(obls, dir, secs*3, 2, nil)
		} else if n > 6 {
			for _, o := range obls {
				if o.Status == "" {
					o.Status = "undecided"
				}
			}
		}
	}
}

func dischargeStage(obls []*Obligation, dir string, secs, workers int, use []string) {
	os.MkdirAll(dir, 0o755)
	var wg sync.WaitGroup
	sem := make(chan struct{}, workers)
	for i, o := range obls {
		if o.Status != "" {
			continue
		}
		wg.Add(1)
		sem <- struct{}{}
		go func(i int, o *Obligation) {
			defer wg.Done()
			defer func() { <-sem }()
			file := filepath.Join(dir, fmt.Sprintf("o%05d.smt2", i))
			txt := ""
			if o.Kind == "vacuity" || o.Kind == "cover" {
				txt = o.vc.renderNoQuant(o.prefix, o.goal, o.extra, o.tags)
			} else {
				txt = o.vc.render(o.prefix, o.goal, o.extra, o.tags)
			}
			txt = "; " + o.Name + "\n" + txt
			os.WriteFile(file, []byte(txt), 0o644)
			r := solveOne(file, secs, use)
			o.Solver, o.Ms = r.solver, r.ms
			if o.Kind == "vacuity" || o.Kind == "cover" {
				// reachability guard: sat is the good answer
				switch r.status {
				case "sat":
					o.Status = "discharged"
					os.Remove(file)
				case "unsat":
					o.Status = "failed"
					o.Model = "vacuous: the guarded point is unreachable under the contract's preconditions"
				default:
					o.Status = "undecided"
					o.Model = r.output
				}
				return
			}
			switch r.status {
			case "unsat":
				o.Status = "discharged"
				if os.Getenv("GOVC_KEEP") == "" {
					os.Remove(file)
				}
			case "sat":
				o.Status = "failed"
				o.Model = getModel(file, r.solver, secs)
			default:
				o.Status = "undecided"
				o.Model = r.output
			}
		}(i, o)
	}
	wg.Wait()
}

// getModel re-runs the winning solver with (get-model).
func getModel(file, solver string, secs int) string {
	b, err := os.ReadFile(file)
	if err != nil {
		return ""
	}
	mf := file + ".model.smt2"
	os.WriteFile(mf, append(b, []byte("(get-model)\n")...), 0o644)
	defer os.Remove(mf)
	for _, s := range solvers {
		if s.name != solver {
			continue
		}
		a := s.args(mf, secs)
		if strings.HasPrefix(s.name, "cvc5") {
			a = append(a[:len(a)-1], "--produce-models", mf)
		}
		out, _ := exec.Command(a[0], a[1:]...).CombinedOutput()
		return string(out)
	}
	return ""
}

func havePriority(obls []*Obligation) bool {
	for _, o := range obls {
		if o.priority {
			return true
		}
	}
	return false
}
