package main

// Index iterators of cosmossdk.io/collections (trusted specification T3):
//
//   it, err := k.Store.Indexes.Idx.MatchExact(ctx, ref);  for ; it.Valid(); it.Next() { pk, err := it.PrimaryKey() ... }
//
// An iterator is an abstract finite sequence of primary keys itkey(id, 0..itlen(id)-1), fixed when the iterator
// is created (snapshot assumption: writes to the store while iterating do not change the keys still to come),
// and a position kept in the ghost heap IT_pos. The sequence consists of exactly the keys of the store at
// creation whose index function yields the reference key; the index function is the closure that layer passes
// to indexes.NewMulti for that index field (found in the SSA of the index constructor, evaluated as a term).
// The order of the sequence is left unspecified.

import (
	"fmt"
	"go/token"
	"go/types"
	"strings"

	"golang.org/x/tools/go/ssa"
)

const idxPkg = collPkg + "/indexes"

// indexFn finds the closure passed to indexes.NewMulti for field `field` of index struct `structPath`.
func (p *Prog) indexFn(structPath, field string) *ssa.Function {
	if p.idxFns == nil {
		p.idxFns = map[string]*ssa.Function{}
		for _, fn := range p.Funcs {
			for _, b := range fn.Blocks {
				for _, in := range b.Instrs {
					st, ok := in.(*ssa.Store)
					if !ok {
						continue
					}
					fa, ok := st.Addr.(*ssa.FieldAddr)
					if !ok {
						continue
					}
					call, ok := st.Val.(*ssa.Call)
					if !ok {
						continue
					}
					callee := call.Call.StaticCallee()
					if callee == nil || !strings.Contains(callee.String(), idxPkg+".NewMulti") || len(call.Call.Args) == 0 {
						continue
					}
					pt, ok := types.Unalias(fa.X.Type()).Underlying().(*types.Pointer)
					if !ok {
						continue
					}
					sst, ok := pt.Elem().Underlying().(*types.Struct)
					if !ok {
						continue
					}
					var f *ssa.Function
					for _, arg := range call.Call.Args {
						switch a := arg.(type) {
						case *ssa.Function:
							f = a
						case *ssa.MakeClosure:
							if len(a.Bindings) == 0 {
								f, _ = a.Fn.(*ssa.Function)
							}
						}
					}
					if f != nil {
						p.idxFns[namedPath(pt.Elem())+"."+sst.Field(fa.Field).Name()] = f
					}
				}
			}
		}
	}
	return p.idxFns[structPath+"."+field]
}

// ghostIndexOf traces the receiver of an index operation (k.Store.Indexes.Field) to the ghost store and the
// index struct field.
func (e *Engine) ghostIndexOf(v ssa.Value) (g *ghostRef, structPath, field string) {
	strip := func(v ssa.Value) ssa.Value {
		for {
			switch x := v.(type) {
			case *ssa.UnOp:
				if x.Op == token.MUL {
					v = x.X
					continue
				}
			case *ssa.ChangeType:
				v = x.X
				continue
			}
			return v
		}
	}
	fieldOf := func(v ssa.Value) (base ssa.Value, st types.Type, idx int, ok bool) {
		switch x := strip(v).(type) {
		case *ssa.FieldAddr:
			pt, isPtr := types.Unalias(x.X.Type()).Underlying().(*types.Pointer)
			if !isPtr {
				return nil, nil, 0, false
			}
			return x.X, pt.Elem(), x.Field, true
		case *ssa.Field:
			return x.X, x.X.Type(), x.Field, true
		}
		return nil, nil, 0, false
	}
	b1, s1, i1, ok := fieldOf(v) // .Field of the index struct
	if !ok {
		return nil, "", ""
	}
	sst, ok := types.Unalias(s1).Underlying().(*types.Struct)
	if !ok {
		return nil, "", ""
	}
	b2, s2, i2, ok := fieldOf(b1) // .Indexes of the IndexedMap
	if !ok {
		return nil, "", ""
	}
	if st2, ok := types.Unalias(s2).Underlying().(*types.Struct); !ok || st2.Field(i2).Name() != "Indexes" {
		return nil, "", ""
	}
	g = e.ghostOfValue(b2)
	if g == nil {
		return nil, "", ""
	}
	return g, namedPath(s1), sst.Field(i1).Name()
}

func (e *Engine) declIter(ksort string) {
	if !e.vc.declared["iter"] {
		e.vc.declared["iter"] = true
		e.vc.declFun("itlen", []string{"Int"}, "Int")
		e.vc.declSort("(assert (forall ((i Int)) (! (>= (itlen i) 0) :pattern ((itlen i)))))")
	}
	m := mangle(ksort)
	if !e.vc.declared["iter_"+m] {
		e.vc.declared["iter_"+m] = true
		e.vc.declFun("itkey_"+m, []string{"Int", "Int"}, ksort)
		e.vc.declFun("itinv_"+m, []string{"Int", ksort}, "Int")
		// distinct keys: itinv inverts itkey on the index range
		e.vc.declSort(fmt.Sprintf("(assert (forall ((i Int) (j Int)) (! (=> (and (<= 0 j) (< j (itlen i))) (= (itinv_%s i (itkey_%s i j)) j)) :pattern ((itkey_%s i j)))))", m, m, m))
	}
}

// iterID: the identity of an iterator value (its abstract sequence and position cell).
func (e *Engine) iterID(v Val) string {
	srt := e.vc.sortOf(v.T)
	fn := "itid_" + mangle(srt)
	e.vc.declFun(fn, []string{srt}, "Int")
	return app(fn, v.S)
}

const itPosHeap = "IT_pos"

func (e *Engine) iterPos(st *State, id string) string {
	p := app("select", e.heap(st, itPosHeap, "(Array Int Int)"), id)
	return p
}

// iterKeySort: key sort of the primary keys of a MultiIterator[Ref, PK] (or Multi[Ref, PK, V]) type.
func iterTypeArgs(t types.Type) *types.TypeList {
	t = types.Unalias(t)
	if p, ok := t.(*types.Pointer); ok {
		t = types.Unalias(p.Elem())
	}
	if n, ok := t.(*types.Named); ok {
		return n.TypeArgs()
	}
	return nil
}

// keyToGo converts a key-sort term into a Go value of type t (byte-slice keys become fresh slices with that content).
func (e *Engine) keyToGo(c *callCtx, term string, t types.Type) Val {
	if isByteSlice(t) {
		if e.vc.inline {
			e.vc.declFun("slice_of_bv", []string{"BV"}, "Slice")
			return Val{S: app("slice_of_bv", term), T: t}
		}
		v := e.freshVal(c.st, "keybytes", t)
		e.assumeIn(c.st, eq(e.bvOf(c.st, v), term))
		e.assumeIn(c.st, not(eq(app("sptr", v.S), "0")))
		return v
	}
	return Val{S: term, T: t}
}

// indexFnTerm evaluates the index function of (structPath, field) on key term k and value term v as a pure term of
// the reference-key sort ("" if it cannot be expressed; the sequence is then only known to consist of stored keys).
func (e *Engine) indexFnTerm(c *callCtx, structPath, field string, g *ghostRef, k, v string) string {
	fn := e.prog.indexFn(structPath, field)
	if fn == nil || len(fn.Params) != 2 {
		e.note("approx", "index function of "+structPath+"."+field+" not found: the iterator only yields stored keys")
		return ""
	}
	n0 := e.vc.n
	wasInline := e.vc.inline
	e.vc.inline = true
	oos0 := len(e.oos)
	st := c.st.clone()
	rt := fn.Signature.Results()
	ictx := &callCtx{fr: c.fr, st: st, instr: c.instr, common: c.common, rt: rt, pos: c.pos}
	r := c.fr.inline(ictx, fn, nil, []Val{{S: k, T: fn.Params[0].Type()}, {S: v, T: fn.Params[1].Type()}})
	e.vc.inline = wasInline
	if e.vc.n != n0 || len(e.oos) > oos0 || len(r.Tup) < 1 || r.Tup[0].S == "" {
		e.oos = e.oos[:oos0]
		e.note("approx", "index function of "+structPath+"."+field+" could not be evaluated as a term: the iterator only yields stored keys")
		return ""
	}
	return e.keyTerm(st, r.Tup[0])
}

func init() {
	mi := "(" + idxPkg + ".MultiIterator[ReferenceKey, PrimaryKey])."
	libSpecs["(*"+idxPkg+".Multi[ReferenceKey, PrimaryKey, Value]).MatchExact"] = func(c *callCtx) Val {
		e := c.e()
		g, sp, field := e.ghostIndexOf(c.common.Args[0])
		tt := c.rt.(*types.Tuple)
		if g == nil || g.kind != "map" {
			e.note("unmodelled", "MatchExact on an untraceable index in "+c.fr.fn.Name())
			return c.fr.closureEffectsHavoc(c)
		}
		v0 := e.heap(c.st, g.name+"_v", e.heapSorts[g.name+"_v"])
		refKey := e.keyTerm(c.st, c.args[2])
		ft := e.indexFnTerm(c, sp, field, g, "kq", app("select", v0, "kq"))
		var match func(k string) string
		if ft != "" {
			match = func(k string) string { return eq(replaceToken(ft, "kq", k), refKey) }
		}
		it, id := e.newStoreIter(c, g, tt.At(0).Type(), match)
		if ft != "" {
			// the length of the sequence is a function of the store's content and the reference key:
			// matchcount(store, "Field", key) in contracts
			d0 := e.heap(c.st, g.name+"_d", e.heapSorts[g.name+"_d"])
			ks := "BV"
			if !isByteSlice(c.args[2].T) {
				ks = e.vc.sortOf(c.args[2].T)
			}
			e.assumeIn(c.st, eq(app("itlen", id), e.matchCount(g, field, d0, v0, refKey, ks)))
		}
		return Val{T: c.rt, Tup: []Val{it, {S: "iface_nil", T: tt.At(1).Type()}}}
	}
	// FullKeys / PrimaryKeys: the remaining keys of the sequence as a slice (only its length is specified for
	// FullKeys; PrimaryKeys lists the keys in sequence order); the iterator is consumed
	keysOf := func(primary bool) specFn {
		return func(c *callCtx) Val {
			e := c.e()
			tt := c.rt.(*types.Tuple)
			id := e.vc.define("itid", "Int", e.iterID(c.args[0]))
			e.declIter("Int")
			pos := e.vc.define("itpos", "Int", e.iterPos(c.st, id))
			e.assumeIn(c.st, and(app("<=", "0", pos), app("<=", pos, app("itlen", id))))
			out := e.freshVal(c.st, "keys", tt.At(0).Type())
			er := c.freshErr("keyserr")
			okc := e.vc.fresh("keys_ok", "Bool")
			e.assumeIn(c.st, implies(okc, eq(app("slen", out.S), app("-", app("itlen", id), pos))))
			_ = primary
			e.setHeap(c.st, itPosHeap, "(Array Int Int)", app("store", e.heap(c.st, itPosHeap, "(Array Int Int)"), id, app("itlen", id)))
			return Val{T: c.rt, Tup: []Val{out, {S: ite(okc, "iface_nil", er), T: tt.At(1).Type()}}}
		}
	}
	libSpecs[mi+"FullKeys"] = keysOf(false)
	libSpecs[mi+"PrimaryKeys"] = keysOf(true)
	libMods[mi+"FullKeys"] = func(e *Engine, cc *ssa.CallCommon) []string { return []string{itPosHeap} }
	libMods[mi+"PrimaryKeys"] = func(e *Engine, cc *ssa.CallCommon) []string { return []string{itPosHeap} }
	libMods["(*"+idxPkg+".Multi[ReferenceKey, PrimaryKey, Value]).MatchExact"] = func(e *Engine, cc *ssa.CallCommon) []string { return []string{itPosHeap} }
	libSpecs[mi+"Valid"] = func(c *callCtx) Val {
		e := c.e()
		id := e.iterID(c.args[0])
		e.declIter("Int")
		pos := e.iterPos(c.st, id)
		e.assumeIn(c.st, and(app("<=", "0", pos), app("<=", pos, app("itlen", id))))
		return c.def("itvalid", app("<", pos, app("itlen", id)))
	}
	libSpecs[mi+"Next"] = func(c *callCtx) Val {
		e := c.e()
		id := e.iterID(c.args[0])
		e.declIter("Int")
		pos := e.iterPos(c.st, id)
		e.assumeIn(c.st, and(app("<=", "0", pos), app("<=", pos, app("itlen", id))))
		c.obl("panic.lib", "iterator.Next_on_exhausted_iterator", app("<", pos, app("itlen", id)))
		e.setHeap(c.st, itPosHeap, "(Array Int Int)", app("store", e.heap(c.st, itPosHeap, "(Array Int Int)"), id, app("+", pos, "1")))
		return Val{T: c.rt}
	}
	libMods[mi+"Next"] = func(e *Engine, cc *ssa.CallCommon) []string { return []string{itPosHeap} }
	libSpecs[mi+"Close"] = func(c *callCtx) Val { return c.ret("iface_nil") }
	libSpecs[mi+"PrimaryKey"] = func(c *callCtx) Val {
		e := c.e()
		id := e.iterID(c.args[0])
		tt := c.rt.(*types.Tuple)
		info := iterInfo{ksort: e.keySort(tt.At(0).Type()), kt: tt.At(0).Type()}
		e.declIter(info.ksort)
		pos := e.iterPos(c.st, id)
		e.assumeIn(c.st, and(app("<=", "0", pos), app("<=", pos, app("itlen", id))))
		c.obl("panic.lib", "iterator.PrimaryKey_on_exhausted_iterator", app("<", pos, app("itlen", id)))
		kterm := e.vc.define("pk", info.ksort, app("itkey_"+mangle(info.ksort), id, pos))
		if name, targs := pairArgs(tt.At(0).Type()); name != "" {
			// eta-expansion, so that patterns over (mk_pair a b) match the key
			var comps []string
			for i := 0; i < targs.Len(); i++ {
				comps = append(comps, app(fmt.Sprintf("%s_%d", info.ksort, i), kterm))
			}
			e.assumeIn(c.st, eq(kterm, app("mk_"+info.ksort, comps...)))
		}
		k := e.keyToGo(c, kterm, tt.At(0).Type())
		return Val{T: c.rt, Tup: []Val{k, {S: "iface_nil", T: tt.At(1).Type()}}}
	}
	// indexes.CollectValues(ctx, indexedMap, iter): the stored values of the remaining keys, in sequence order
	libSpecs[idxPkg+".CollectValues"] = func(c *callCtx) Val {
		e := c.e()
		g := e.ghostOfValue(c.common.Args[1])
		if g == nil || g.kind != "map" {
			e.note("unmodelled", "CollectValues on an untraceable store in "+c.fr.fn.Name())
			return c.fr.closureEffectsHavoc(c)
		}
		return e.collectValues(c, g, c.args[2])
	}
	libMods[idxPkg+".CollectValues"] = func(e *Engine, cc *ssa.CallCommon) []string { return []string{itPosHeap} }

	// key components
	for _, spec := range []struct {
		recv string
		n    int
	}{{"Pair[K1, K2]", 2}, {"Triple[K1, K2, K3]", 3}} {
		for i := 0; i < spec.n; i++ {
			i := i
			libSpecs[fmt.Sprintf("(%s.%s).K%d", collPkg, spec.recv, i+1)] = func(c *callCtx) Val {
				e := c.e()
				srt := e.vc.sortOf(c.args[0].T)
				return e.keyToGo(c, app(fmt.Sprintf("%s_%d", srt, i), c.args[0].S), c.rt)
			}
		}
	}
}

type iterInfo struct {
	ksort string
	kt    types.Type
	g     *ghostRef
}

// newStoreIter creates an iterator over the keys of store g that satisfy match (nil: all keys): a fresh identity,
// position 0, and the facts tying its key sequence to the store content at creation.
func (e *Engine) newStoreIter(c *callCtx, g *ghostRef, itT types.Type, match func(k string) string) (Val, string) {
	e.declIter(g.ksort)
	m := mangle(g.ksort)
	it := e.freshVal(c.st, "iter", itT)
	id := e.vc.define("itid", "Int", e.iterID(it))
	// a new iterator: its identity is distinct from every earlier one
	ref := e.alloc(c.st)
	e.assumeIn(c.st, eq(id, ref))
	e.setHeap(c.st, itPosHeap, "(Array Int Int)", app("store", e.heap(c.st, itPosHeap, "(Array Int Int)"), id, "0"))
	d0 := e.heap(c.st, g.name+"_d", e.heapSorts[g.name+"_d"])
	key := func(j string) string { return app("itkey_"+m, id, j) }
	mt := func(k string) string {
		if match == nil {
			return "true"
		}
		return match(k)
	}
	// (a) every key of the sequence is stored and matches
	e.assumeIn(c.st, fmt.Sprintf("(forall ((j Int)) (! (=> (and (<= 0 j) (< j (itlen %s))) (and (select %s %s) %s)) :pattern (%s)))",
		id, d0, key("j"), mt(key("j")), key("j")))
	// (c) every stored key that matches is in the sequence
	e.assumeIn(c.st, fmt.Sprintf("(forall ((kq %s)) (! (=> (and (select %s kq) %s) (and (<= 0 (itinv_%s %s kq)) (< (itinv_%s %s kq) (itlen %s)) (= %s kq))) :pattern ((select %s kq))))",
		g.ksort, d0, mt("kq"), m, id, m, id, id, key(app("itinv_"+m, id, "kq")), d0))
	if match == nil {
		// all keys: the length is the number of stored keys
		e.assumeIn(c.st, eq(app("itlen", id), e.card(g, d0)))
	}
	return it, id
}

// matchCount: the number of stored keys whose index field yields the reference key (an uninterpreted function of
// the store's domain, its values and the key; non-negative).
func (e *Engine) matchCount(g *ghostRef, field, d, v, key, ksort string) string {
	fn := "nmatch_" + mangle(g.name) + "_" + mangle(field)
	ds, vs := e.heapSorts[g.name+"_d"], e.heapSorts[g.name+"_v"]
	e.vc.declFun(fn, []string{ds, vs, ksort}, "Int")
	if !e.vc.declared[fn] {
		e.vc.declared[fn] = true
	}
	r := app(fn, d, v, key)
	e.vc.assume(app(">=", r, "0"))
	return r
}

// card: number of keys of a store domain (ghost cardinality; facts are added by Set / Remove / Clear).
func (e *Engine) card(g *ghostRef, d string) string {
	fn := "card_" + mangle(g.ksort)
	e.vc.declFun(fn, []string{fmt.Sprintf("(Array %s Bool)", g.ksort)}, "Int")
	if !e.vc.declared[fn] {
		e.vc.declared[fn] = true
		e.vc.declSort(fmt.Sprintf("(assert (forall ((d (Array %s Bool))) (! (>= (%s d) 0) :pattern ((%s d)))))", g.ksort, fn, fn))
	}
	return app(fn, d)
}

// collectValues: the stored values of the remaining keys of an iterator, in sequence order (Values / CollectValues).
func (e *Engine) collectValues(c *callCtx, g *ghostRef, itv Val) Val {
	tt := c.rt.(*types.Tuple)
	id := e.vc.define("itid", "Int", e.iterID(itv))
	e.declIter(g.ksort)
	m := mangle(g.ksort)
	pos := e.vc.define("itpos", "Int", e.iterPos(c.st, id))
	e.assumeIn(c.st, and(app("<=", "0", pos), app("<=", pos, app("itlen", id))))
	d := e.heap(c.st, g.name+"_d", e.heapSorts[g.name+"_d"])
	v := e.heap(c.st, g.name+"_v", e.heapSorts[g.name+"_v"])
	key := func(j string) string { return app("itkey_"+m, id, j) }
	okc := e.vc.fresh("collect_ok", "Bool")
	e.assumeIn(c.st, implies(okc, fmt.Sprintf("(forall ((j Int)) (! (=> (and (<= %s j) (< j (itlen %s))) (select %s %s)) :pattern (%s)))", pos, id, d, key("j"), key("j"))))
	e.assumeIn(c.st, implies(not(okc), fmt.Sprintf("(exists ((j Int)) (and (<= %s j) (< j (itlen %s)) (not (select %s %s))))", pos, id, d, key("j"))))
	vals := e.freshVal(c.st, "collected", tt.At(0).Type())
	sl := types.Unalias(tt.At(0).Type()).Underlying().(*types.Slice)
	hn, hs := e.vc.arrHeapName(sl.Elem())
	arr := app("select", e.heap(c.st, hn, hs), app("sptr", vals.S))
	e.assumeIn(c.st, implies(okc, and(eq(app("slen", vals.S), app("-", app("itlen", id), pos)), eq(app("soff", vals.S), "0"))))
	e.assumeIn(c.st, implies(okc, fmt.Sprintf("(forall ((j Int)) (! (=> (and (<= 0 j) (< j (- (itlen %s) %s))) (= (select %s (idx 0 j)) (select %s %s))) :pattern ((select %s (idx 0 j)))))",
		id, pos, arr, v, key(app("+", pos, "j")), arr)))
	// element invariants of the collected values
	e.assumeIn(c.st, implies(okc, fmt.Sprintf("(forall ((j Int)) (! (=> (and (<= 0 j) (< j (- (itlen %s) %s))) %s) :pattern ((select %s (idx 0 j)))))",
		id, pos, and(e.typeInv("(select "+arr+" (idx 0 j))", sl.Elem()), e.allocInv(c.st, "(select "+arr+" (idx 0 j))", sl.Elem())), arr)))
	e.setHeap(c.st, itPosHeap, "(Array Int Int)", app("store", e.heap(c.st, itPosHeap, "(Array Int Int)"), id, app("itlen", id)))
	er := c.freshErr("collecterr")
	return Val{T: c.rt, Tup: []Val{vals, {S: ite(okc, "iface_nil", er), T: tt.At(1).Type()}}}
}

func init() {
	// Map.Iterate(ctx, nil) + Iterator.Values(): all stored values in key order (order unspecified here)
	iterate := func(c *callCtx) Val {
		e := c.e()
		g := e.ghostOfValue(c.common.Args[0])
		tt := c.rt.(*types.Tuple)
		cst, isNil := stripIface(c.common.Args[2]).(*ssa.Const)
		if g != nil && g.kind == "map" && !isNil {
			// Iterate(ctx, new(collections.Range[uint64])...): the stored keys within the bounds, in increasing
			// (Descending: decreasing) key order -- the same reading of collections v0.4.0 as Walk (walk.go)
			r := c.fr.rangeOf(c, c.common.Args[2])
			if name, _ := pairArgs(g.kt); r != nil && r.blk == c.instr.Block() && r.prefix == "" && name == "" && kindOf(g.kt) == kInt {
				lo, hi := r.lo, r.hi
				it, id := e.newStoreIter(c, g, tt.At(0).Type(), func(k string) string { return and(app("<=", lo, k), app("<", k, hi)) })
				lt := "<"
				if r.desc {
					lt = ">"
				}
				m := mangle(g.ksort)
				e.assumeIn(c.st, fmt.Sprintf("(forall ((i Int) (j Int)) (! (=> (and (<= 0 i) (< i j) (< j (itlen %s))) (%s (itkey_%s %s i) (itkey_%s %s j))) :pattern ((itkey_%s %s i) (itkey_%s %s j))))",
					id, lt, m, id, m, id, m, id, m, id))
				e.assumeIn(c.st, app(">=", app("itlen", id), "0"))
				if c.fr.iterStore == nil {
					c.fr.iterStore = map[ssa.Value]*ghostRef{}
				}
				if iv, ok := c.instr.(ssa.Value); ok {
					c.fr.iterStore[iv] = g
				}
				return Val{T: c.rt, Tup: []Val{it, {S: "iface_nil", T: tt.At(1).Type()}}}
			}
		}
		if g == nil || g.kind != "map" || !isNil || cst.Value != nil {
			e.note("unmodelled", "Iterate with a range or on an untraceable store in "+c.fr.fn.Name())
			return c.fr.closureEffectsHavoc(c)
		}
		it, _ := e.newStoreIter(c, g, tt.At(0).Type(), nil)
		if c.fr.iterStore == nil {
			c.fr.iterStore = map[ssa.Value]*ghostRef{}
		}
		if iv, ok := c.instr.(ssa.Value); ok {
			c.fr.iterStore[iv] = g
		}
		return Val{T: c.rt, Tup: []Val{it, {S: "iface_nil", T: tt.At(1).Type()}}}
	}
	libSpecs["("+collPkg+".Map[K, V]).Iterate"] = iterate
	libSpecs["(*"+collPkg+".IndexedMap[PrimaryKey, Value, Idx]).Iterate"] = iterate
	libMods["(*"+collPkg+".IndexedMap[PrimaryKey, Value, Idx]).Iterate"] = func(e *Engine, cc *ssa.CallCommon) []string { return []string{itPosHeap} }
	// Iterator.Valid / Next / Key / Close: as for the index iterators
	pi := "(" + collPkg + ".Iterator[K, V])."
	mi := "(" + idxPkg + ".MultiIterator[ReferenceKey, PrimaryKey])."
	libSpecs[pi+"Valid"] = libSpecs[mi+"Valid"]
	libSpecs[pi+"Next"] = libSpecs[mi+"Next"]
	libMods[pi+"Next"] = libMods[mi+"Next"]
	libSpecs[pi+"Close"] = libSpecs[mi+"Close"]
	libSpecs[pi+"Key"] = libSpecs[mi+"PrimaryKey"]
	libMods["("+collPkg+".Map[K, V]).Iterate"] = func(e *Engine, cc *ssa.CallCommon) []string { return []string{itPosHeap} }
	libSpecs["("+collPkg+".Iterator[K, V]).Values"] = func(c *callCtx) Val {
		e := c.e()
		// the iterator must come from an Iterate call of this function: v = extract(call, 0)
		var g *ghostRef
		if ex, ok := c.common.Args[0].(*ssa.Extract); ok && c.fr.iterStore != nil {
			g = c.fr.iterStore[ex.Tuple]
		}
		if g == nil {
			e.note("unmodelled", "Values on an iterator of unknown origin in "+c.fr.fn.Name())
			return c.fr.closureEffectsHavoc(c)
		}
		return e.collectValues(c, g, c.args[0])
	}
	libMods["("+collPkg+".Iterator[K, V]).Values"] = func(e *Engine, cc *ssa.CallCommon) []string { return []string{itPosHeap} }
	// Map.Clear(ctx, nil): removes every key
	libSpecs["("+collPkg+".Map[K, V]).Clear"] = func(c *callCtx) Val {
		e := c.e()
		g := e.ghostOfValue(c.common.Args[0])
		cst, isNil := stripIface(c.common.Args[2]).(*ssa.Const)
		if g == nil || g.kind != "map" || !isNil || cst.Value != nil {
			e.note("unmodelled", "Clear with a range or on an untraceable store in "+c.fr.fn.Name())
			return c.fr.havocCall(c, true)
		}
		dn := g.name + "_d"
		nd := e.vc.fresh(dn+"_cleared", e.heapSorts[dn])
		e.vc.assume(fmt.Sprintf("(forall ((k %s)) (! (not (select %s k)) :pattern ((select %s k))))", g.ksort, nd, nd))
		e.vc.assume(eq(e.card(g, nd), "0"))
		e.setHeap(c.st, dn, e.heapSorts[dn], nd)
		return c.ret("iface_nil")
	}
	libMods["("+collPkg+".Map[K, V]).Clear"] = collMods
}
