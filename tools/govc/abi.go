package main

// go-ethereum ABI packing as an uninterpreted encoding (trusted specification T3, for C15):
//
//   T, _ := abi.NewType("uint256", "", nil)        the type is identified by its name
//   args := abi.Arguments{{Type: T1}, {Type: T2}}
//   out, err := args.Pack(v1, v2)                  out = abi_pack([name(T1), name(T2)], [v1, v2])
//
// abi_pack is an uninterpreted function of the list of type names and the list of values (integers, byte
// strings, strings, booleans); nothing is assumed about it except that equal inputs give equal outputs, which is
// exactly what "the chain encodes the same fields, in the same order, with the same types as the contract" needs.
// In contracts: abienc("t1,t2,...", v1, v2, ...). Supporting facts: hex.DecodeString(s) yields hexdec(s);
// copying a byte string into a fresh fixed-size array yields pad(content, size) (right-padded / truncated).

import (
	"fmt"
	"go/constant"
	"go/types"
	"strings"

	"golang.org/x/tools/go/ssa"
)

const abiPkg = "github.com/ethereum/go-ethereum/accounts/abi"

func (e *Engine) declABI() {
	if e.vc.declared["abi"] {
		return
	}
	e.vc.declared["abi"] = true
	e.declAddr()
	e.vc.declSort("(declare-sort AbiVal 0)")
	e.vc.declSort("(declare-sort AbiVals 0)")
	e.vc.declSort("(declare-sort AbiTys 0)")
	e.vc.declFun("av_int", []string{"Int"}, "AbiVal")
	e.vc.declFun("av_bytes", []string{"BV"}, "AbiVal")
	e.vc.declFun("av_str", []string{"Str"}, "AbiVal")
	e.vc.declFun("av_bool", []string{"Bool"}, "AbiVal")
	e.vc.declSort("(declare-const avnil AbiVals)")
	e.vc.declFun("avcons", []string{"AbiVal", "AbiVals"}, "AbiVals")
	e.vc.declSort("(declare-const atnil AbiTys)")
	e.vc.declFun("atcons", []string{"Str", "AbiTys"}, "AbiTys")
	e.vc.declFun("abi_pack", []string{"AbiTys", "AbiVals"}, "BV")
	e.vc.declFun("bv_pad", []string{"BV", "Int"}, "BV")
	e.vc.declFun("hexdec", []string{"Str"}, "BV")
	e.vc.declFun("ishexbytes", []string{"Str"}, "Bool")
	// decoding: abi_unpack_at(types, data, i) is the i-th value Unpack decodes from data; on data that is the
	// packing of a value list with the same types it is the i-th packed value (round trip); nothing else is assumed
	e.vc.declFun("abi_unpack_at", []string{"AbiTys", "BV", "Int"}, "AbiVal")
	e.vc.declFun("av_nth", []string{"AbiVals", "Int"}, "AbiVal")
	e.vc.declFun("unav_int", []string{"AbiVal"}, "Int")
	e.vc.declFun("unav_bytes", []string{"AbiVal"}, "BV")
	e.vc.declFun("unav_str", []string{"AbiVal"}, "Str")
	e.vc.declFun("unav_bool", []string{"AbiVal"}, "Bool")
	e.vc.declSort("(assert (forall ((v AbiVal) (r AbiVals)) (! (= (av_nth (avcons v r) 0) v) :pattern ((avcons v r)))))")
	e.vc.declSort("(assert (forall ((v AbiVal) (r AbiVals) (i Int)) (! (=> (> i 0) (= (av_nth (avcons v r) i) (av_nth r (- i 1)))) :pattern ((av_nth (avcons v r) i)))))")
	e.vc.declSort("(assert (forall ((t AbiTys) (vs AbiVals) (i Int)) (! (= (abi_unpack_at t (abi_pack t vs) i) (av_nth vs i)) :pattern ((abi_unpack_at t (abi_pack t vs) i)))))")
	e.vc.declSort("(assert (forall ((x Int)) (! (= (unav_int (av_int x)) x) :pattern ((av_int x)))))")
	e.vc.declSort("(assert (forall ((x BV)) (! (= (unav_bytes (av_bytes x)) x) :pattern ((av_bytes x)))))")
	e.vc.declSort("(assert (forall ((x Str)) (! (= (unav_str (av_str x)) x) :pattern ((av_str x)))))")
	e.vc.declSort("(assert (forall ((x Bool)) (! (= (unav_bool (av_bool x)) x) :pattern ((av_bool x)))))")
}

// abiArgTypeNames recovers, for an abi.Arguments composite literal, the constant Solidity type names of its
// elements from the SSA pattern  t = new [n]Argument; &t[i].Type <- extract(abi.NewType("name", ...), 0); slice t[:]
func abiArgTypeNames(recv ssa.Value) []string {
	s, ok := recv.(*ssa.Slice)
	if !ok {
		return nil
	}
	al, ok := s.X.(*ssa.Alloc)
	if !ok {
		return nil
	}
	at, ok := types.Unalias(al.Type().(*types.Pointer).Elem()).Underlying().(*types.Array)
	if !ok {
		return nil
	}
	out := make([]string, at.Len())
	for _, ref := range *al.Referrers() {
		ia, ok := ref.(*ssa.IndexAddr)
		if !ok {
			continue
		}
		c, ok := ia.Index.(*ssa.Const)
		if !ok {
			return nil
		}
		i := int(c.Int64())
		for _, r2 := range *ia.Referrers() {
			fa, ok := r2.(*ssa.FieldAddr)
			if !ok {
				continue
			}
			for _, r3 := range *fa.Referrers() {
				st, ok := r3.(*ssa.Store)
				if !ok || st.Addr != fa {
					continue
				}
				v := st.Val
				if ld, ok := v.(*ssa.UnOp); ok { // *alloc holding the type (escaping local)
					if la, ok := ld.X.(*ssa.Alloc); ok {
						for _, r4 := range *la.Referrers() {
							if st2, ok := r4.(*ssa.Store); ok && st2.Addr == la {
								v = st2.Val
							}
						}
					}
				}
				ex, ok := v.(*ssa.Extract)
				if !ok {
					continue
				}
				call, ok := ex.Tuple.(*ssa.Call)
				if !ok || call.Call.StaticCallee() == nil || call.Call.StaticCallee().String() != abiPkg+".NewType" {
					continue
				}
				if k, ok := call.Call.Args[0].(*ssa.Const); ok && k.Value != nil && i < len(out) {
					out[i] = constant.StringVal(k.Value)
				}
			}
		}
	}
	for _, n := range out {
		if n == "" {
			return nil
		}
	}
	return out
}

// importedType finds a named type of a dependency package in the loaded program.
func (e *Engine) importedType(pkgPath, name string) types.Type {
	if p := e.prog.SSA.ImportedPackage(pkgPath); p != nil {
		if t := p.Type(name); t != nil {
			return t.Type()
		}
	}
	return nil
}

// abiValOf wraps a Go value as an AbiVal term ("" if the kind is not supported).
func (e *Engine) abiValOf(st *State, v Val) string {
	t := types.Unalias(v.T)
	switch kindOf(t) {
	case kInt, kMathInt:
		return app("av_int", v.S)
	case kBool:
		return app("av_bool", v.S)
	case kStr:
		return app("av_str", v.S)
	case kSlice:
		if isByteSlice(t) {
			return app("av_bytes", e.bvOf(st, v))
		}
	case kArray:
		at := t.Underlying().(*types.Array)
		if b, ok := types.Unalias(at.Elem()).Underlying().(*types.Basic); ok && b.Kind() == types.Uint8 {
			return app("av_bytes", app("bv_of", v.S, "0", fmt.Sprint(at.Len())))
		}
	}
	return ""
}

// variadicValues recovers the values passed to a variadic parameter from the SSA pattern
//   t0 = new [n]T (varargs); t_i = &t0[i]; *t_i = make T <- x_i ...; slice t0[:]
func variadicValues(sl ssa.Value) []ssa.Value {
	s, ok := sl.(*ssa.Slice)
	if !ok {
		return nil
	}
	al, ok := s.X.(*ssa.Alloc)
	if !ok {
		return nil
	}
	at, ok := types.Unalias(al.Type().(*types.Pointer).Elem()).Underlying().(*types.Array)
	if !ok {
		return nil
	}
	out := make([]ssa.Value, at.Len())
	for _, ref := range *al.Referrers() {
		ia, ok := ref.(*ssa.IndexAddr)
		if !ok {
			continue
		}
		c, ok := ia.Index.(*ssa.Const)
		if !ok {
			return nil
		}
		i := int(c.Int64())
		for _, r2 := range *ia.Referrers() {
			if st, ok := r2.(*ssa.Store); ok && st.Addr == ia && i < len(out) {
				out[i] = st.Val
			}
		}
	}
	for _, v := range out {
		if v == nil {
			return nil
		}
	}
	return out
}

func init() {
	libSpecs[abiPkg+".NewType"] = func(c *callCtx) Val {
		e := c.e()
		e.declABI()
		tt := c.rt.(*types.Tuple)
		ty := e.freshVal(c.st, "abitype", tt.At(0).Type())
		srt := e.vc.sortOf(tt.At(0).Type())
		e.vc.declFun("abi_tyname_"+mangle(srt), []string{srt}, "Str")
		e.assumeIn(c.st, eq(app("abi_tyname_"+mangle(srt), ty.S), c.args[0].S))
		// well-known elementary type names never fail to parse; others may
		er := "iface_nil"
		if k, ok := c.common.Args[0].(*ssa.Const); !ok || k.Value == nil {
			er = e.vc.fresh("abityerr", "Iface")
		}
		return Val{T: c.rt, Tup: []Val{ty, {S: er, T: tt.At(1).Type()}}}
	}
	libSpecs["("+abiPkg+".Arguments).Pack"] = func(c *callCtx) Val {
		e := c.e()
		e.declABI()
		tt := c.rt.(*types.Tuple)
		vals := variadicValues(c.common.Args[1])
		// the receiver: a slice of Argument structs of known length
		n := -1
		if s, ok := c.common.Args[0].(*ssa.Slice); ok {
			if al, ok := s.X.(*ssa.Alloc); ok {
				if at, ok := types.Unalias(al.Type().(*types.Pointer).Elem()).Underlying().(*types.Array); ok {
					n = int(at.Len())
				}
			}
		}
		if vals == nil || n < 0 || n != len(vals) {
			e.note("approx", "abi Pack with arguments the encoding model cannot follow: result unconstrained")
			return c.fr.pureHavoc(c)
		}
		recv := c.args[0]
		sl := types.Unalias(recv.T).Underlying().(*types.Slice)
		hn, hs := e.vc.arrHeapName(sl.Elem())
		arr := app("select", e.heap(c.st, hn, hs), app("sptr", recv.S))
		ss := e.vc.structInfo(sl.Elem())
		if ss == nil {
			return c.fr.pureHavoc(c)
		}
		tyField := fieldSel(ss, "Type")
		if ss.opaque {
			for i, fnm := range ss.fnames {
				if fnm == "Type" {
					e.vc.declFun(ss.fields[i], []string{ss.name}, e.vc.sortOf(ss.ftypes[i]))
				}
			}
		}
		var tyT types.Type
		for i, fnm := range ss.fnames {
			if fnm == "Type" {
				tyT = ss.ftypes[i]
			}
		}
		if tyT == nil {
			return c.fr.pureHavoc(c)
		}
		tsrt := e.vc.sortOf(tyT)
		e.vc.declFun("abi_tyname_"+mangle(tsrt), []string{tsrt}, "Str")
		tl, vl := "atnil", "avnil"
		for i := n - 1; i >= 0; i-- {
			el := app("select", arr, app("idx", app("soff", recv.S), fmt.Sprint(i)))
			tl = app("atcons", app("abi_tyname_"+mangle(tsrt), app(tyField, el)), tl)
			mi, ok := vals[i].(*ssa.MakeInterface)
			if !ok {
				return c.fr.pureHavoc(c)
			}
			av := e.abiValOf(c.st, c.fr.get(mi.X))
			if av == "" {
				e.note("approx", "abi Pack of a value kind the encoding model does not cover: result unconstrained")
				return c.fr.pureHavoc(c)
			}
			vl = app("avcons", av, vl)
		}
		out := e.freshVal(c.st, "packed", tt.At(0).Type())
		e.assumeIn(c.st, eq(e.bvOf(c.st, out), app("abi_pack", tl, vl)))
		e.assumeIn(c.st, not(eq(app("sptr", out.S), "0")))
		er := e.vc.fresh("packerr", "Iface")
		return Val{T: c.rt, Tup: []Val{out, {S: er, T: tt.At(1).Type()}}}
	}
	// (abi.Arguments).Unpack(data): on success a list of len(args) interface values; the i-th holds
	// abi_unpack_at(types, data, i) with the Go type go-ethereum uses for that Solidity type
	libSpecs["("+abiPkg+".Arguments).Unpack"] = func(c *callCtx) Val {
		e := c.e()
		e.declABI()
		tt := c.rt.(*types.Tuple)
		names := abiArgTypeNames(c.common.Args[0])
		if names == nil {
			e.note("approx", "abi Unpack with argument types the encoding model cannot follow: result unconstrained")
			return c.fr.pureHavoc(c)
		}
		tl := "atnil"
		for i := len(names) - 1; i >= 0; i-- {
			tl = app("atcons", e.vc.strLit(names[i]), tl)
		}
		data := e.bvOf(c.st, c.args[1])
		sl := types.Unalias(tt.At(0).Type()).Underlying().(*types.Slice)
		hn, hs := e.vc.arrHeapName(sl.Elem())
		h := e.heap(c.st, hn, hs)
		ref := e.alloc(c.st)
		arr := e.vc.fresh("unparr", "(Array Int Iface)")
		e.setHeap(c.st, hn, hs, app("store", h, ref, arr))
		out := e.vc.fresh("unpacked", "Slice")
		e.assumeIn(c.st, and(eq(app("sptr", out), ref), eq(app("soff", out), "0"), eq(app("slen", out), fmt.Sprint(len(names)))))
		for i, n := range names {
			av := app("abi_unpack_at", tl, data, fmt.Sprint(i))
			var v Val
			switch {
			case n == "string":
				v = Val{S: app("unav_str", av), T: types.Typ[types.String]}
			case n == "bool":
				v = Val{S: app("unav_bool", av), T: types.Typ[types.Bool]}
			case strings.HasPrefix(n, "uint") || strings.HasPrefix(n, "int"):
				bt := e.importedType("math/big", "Int")
				if bt == nil {
					return c.fr.pureHavoc(c)
				}
				iv := e.vc.define("unpint", "Int", app("unav_int", av))
				if strings.HasPrefix(n, "uint") {
					e.assumeIn(c.st, app(">=", iv, "0"))
				}
				v = Val{S: iv, T: types.NewPointer(bt)}
			case n == "bytes":
				bs := e.freshVal(c.st, "unpbytes", types.NewSlice(types.Universe.Lookup("byte").Type()))
				e.assumeIn(c.st, eq(e.bvOf(c.st, bs), app("unav_bytes", av)))
				v = bs
			case n == "address":
				adt := e.importedType("github.com/ethereum/go-ethereum/common", "Address")
				if adt == nil {
					return c.fr.pureHavoc(c)
				}
				a := e.vc.fresh("unpaddr", e.vc.sortOf(adt))
				e.assumeIn(c.st, eq(app("bv_of", a, "0", "20"), app("unav_bytes", av)))
				v = Val{S: a, T: adt}
			default:
				e.note("approx", "abi Unpack of Solidity type "+n+": element unconstrained")
				continue
			}
			boxed := c.fr.makeIface(v, sl.Elem())
			e.assumeIn(c.st, eq(app("select", arr, fmt.Sprint(i)), boxed.S))
		}
		er := e.vc.fresh("unpackerr", "Iface")
		return Val{T: c.rt, Tup: []Val{{S: ite(eq(er, "iface_nil"), out, "(mk_slice 0 0 0)"), T: tt.At(0).Type()}, {S: er, T: tt.At(1).Type()}}}
	}
	// reflect.TypeOf(x).Kind(): the kind of the dynamic type of x (a function of its type tag; known for the basic
	// types an ABI decoder produces)
	libSpecs["reflect.TypeOf"] = func(c *callCtx) Val {
		e := c.e()
		e.vc.declFun("rt_tag", []string{"Iface"}, "Int")
		r := e.vc.fresh("rtype", "Iface")
		e.assumeIn(c.st, and(eq(app("rt_tag", r), app("typeof", c.args[0].S)), not(eq(r, "iface_nil"))))
		return c.ret(r)
	}
	invokeSpecs["(reflect.Type).Kind"] = func(c *callCtx) Val {
		e := c.e()
		e.vc.declFun("rt_tag", []string{"Iface"}, "Int")
		e.vc.declFun("rkind_of_tag", []string{"Int"}, "Int")
		for _, kt := range []struct {
			t types.Type
			k int
		}{{types.Typ[types.Bool], 1}, {types.Typ[types.String], 24}, {types.Typ[types.Uint64], 11}, {types.Typ[types.Int64], 6}} {
			tag, _ := e.typeTag(kt.t)
			e.vc.declSort(fmt.Sprintf("(assert (= (rkind_of_tag %d) %d))", tag, kt.k))
		}
		return c.def("rkind", app("rkind_of_tag", app("rt_tag", c.args[0].S)))
	}
	invokeMods["(reflect.Type).Kind"] = func(e *Engine, cc *ssa.CallCommon) []string { return nil }
	// (common.Address).Bytes(): a slice holding the 20 bytes of the address
	libSpecs["(github.com/ethereum/go-ethereum/common.Address).Bytes"] = func(c *callCtx) Val {
		e := c.e()
		e.declAddr()
		out := e.freshVal(c.st, "addrbytes", c.rt)
		e.assumeIn(c.st, and(eq(app("slen", out.S), "20"), eq(e.bvOf(c.st, out), app("bv_of", c.args[0].S, "0", "20"))))
		return out
	}
	// common.BytesToAddress(b): the last 20 bytes of b, left-padded: ethaddr(content of b)
	libSpecs["github.com/ethereum/go-ethereum/common.BytesToAddress"] = func(c *callCtx) Val {
		e := c.e()
		e.declABI()
		e.vc.declFun("ethaddr", []string{"BV"}, "BV")
		at := types.Unalias(c.rt).Underlying().(*types.Array)
		arr := e.vc.fresh("ethaddr", e.vc.sortOf(c.rt))
		e.assumeIn(c.st, eq(app("bv_of", arr, "0", fmt.Sprint(at.Len())), app("ethaddr", e.bvOf(c.st, c.args[0]))))
		return c.ret(arr)
	}
	// hex.EncodeToString(b) = hexenc(content of b); decoding it gives the content back
	libSpecs["encoding/hex.EncodeToString"] = func(c *callCtx) Val {
		e := c.e()
		e.declABI()
		e.vc.declFun("hexenc", []string{"BV"}, "Str")
		e.vc.declSort("(assert (forall ((b BV)) (! (and (= (hexdec (hexenc b)) b) (ishexbytes (hexenc b))) :pattern ((hexenc b)))))")
		return c.def("hex", app("hexenc", e.bvOf(c.st, c.args[0])))
	}
	libSpecs["encoding/hex.DecodeString"] = func(c *callCtx) Val {
		e := c.e()
		e.declABI()
		tt := c.rt.(*types.Tuple)
		out := e.freshVal(c.st, "hexbytes", tt.At(0).Type())
		ok := e.vc.define("hexok", "Bool", app("ishexbytes", c.args[0].S))
		e.assumeIn(c.st, implies(ok, eq(e.bvOf(c.st, out), app("hexdec", c.args[0].S))))
		er := c.freshErr("hexerr")
		return Val{T: c.rt, Tup: []Val{out, {S: ite(ok, "iface_nil", er), T: tt.At(1).Type()}}}
	}
}

// abiCopyLemma: copy(dst[:], src) into a fixed-size byte array that nothing has written before gives
// pad(content(src), size). Called by copyOp with the destination's SSA value.
func (fr *Frame) abiCopyLemma(ctx *callCtx, newArr string) {
	e := fr.e
	s, ok := ctx.common.Args[0].(*ssa.Slice)
	if !ok || s.Low != nil || s.High != nil {
		return
	}
	al, ok := s.X.(*ssa.Alloc)
	if !ok {
		return
	}
	at, ok := types.Unalias(al.Type().(*types.Pointer).Elem()).Underlying().(*types.Array)
	if !ok {
		return
	}
	if b, ok := types.Unalias(at.Elem()).Underlying().(*types.Basic); !ok || b.Kind() != types.Uint8 {
		return
	}
	for _, ref := range *al.Referrers() {
		switch r := ref.(type) {
		case *ssa.Slice, *ssa.UnOp, *ssa.DebugRef:
		case *ssa.IndexAddr:
			_ = r
			return // element-wise writes or reads: do not reason about the whole content
		default:
			return
		}
	}
	// exactly one copy into it
	copies := 0
	for _, ref := range *al.Referrers() {
		if sl, ok := ref.(*ssa.Slice); ok {
			for _, r2 := range *sl.Referrers() {
				if call, ok := r2.(*ssa.Call); ok {
					if b, ok := call.Call.Value.(*ssa.Builtin); ok && b.Name() == "copy" && call.Call.Args[0] == sl {
						copies++
					} else {
						return
					}
				}
			}
		}
	}
	if copies != 1 {
		return
	}
	src := ctx.args[1]
	var content string
	switch {
	case kindOf(src.T) == kStr:
		return
	case isByteSlice(src.T):
		content = e.bvOf(ctx.st, src)
	default:
		return
	}
	e.declABI()
	e.assumeIn(ctx.st, eq(app("bv_of", newArr, "0", fmt.Sprint(at.Len())), app("bv_pad", content, fmt.Sprint(at.Len()))))
}

var _ = strings.TrimSpace
