package main

import (
	"fmt"
	"go/ast"
	"go/types"
	"sort"
	"strings"

	"golang.org/x/tools/go/ssa"
)

// extra engine state (kept here to keep exec.go focused)
type engineExtra struct{}

func rangeKeyOf(s ast.Stmt) string {
	if r, ok := s.(*ast.RangeStmt); ok {
		if id, ok := r.Key.(*ast.Ident); ok && id.Name != "_" {
			return id.Name
		}
	}
	return ""
}

type FuncResult struct {
	Key          string        `json:"func"`
	Obls         []*Obligation `json:"obligations"`
	OutOfSubset  []string      `json:"out_of_subset,omitempty"`
	ContractErrs []string      `json:"contract_errors,omitempty"`
	Notes        []string      `json:"notes,omitempty"`
	HasContract  bool          `json:"has_contract"`
	Trusted      bool          `json:"trusted,omitempty"`
	UsedContracts []string     `json:"used_contracts,omitempty"`
	Called       []string      `json:"-"`
}

// verifyFunc generates all obligations of one function against its contract (if any).
func verifyFunc(p *Prog, key string) *FuncResult {
	fn := p.Funcs[key]
	res := &FuncResult{Key: key}
	if fn == nil {
		res.OutOfSubset = []string{"function not found in the current tree: " + key}
		return res
	}
	e := newEngine(p, fn)
	c := p.Contracts[key]
	res.HasContract = c != nil
	fr := e.newFrame(fn, 0)
	fr.top = true
	fr.contract = c
	st := &State{cond: "true", heaps: map[string]string{}}
	top0 := e.vc.fresh("top", "Int")
	e.vc.assume(app("<", "0", top0))
	st.top = top0
	e.registerGhosts(st)
	// symbolic parameters (may alias each other and anything allocated before the call)
	e.freshResultsAlias = true
	var args []Val
	for i, prm := range fn.Params {
		name := prm.Name()
		if c != nil && i < len(c.ParamNames) && c.ParamNames[i] != "" {
			name = c.ParamNames[i]
		}
		v := e.freshVal(st, "in_"+name, prm.Type())
		e.inputs = append(e.inputs, v.S)
		args = append(args, v)
	}
	// free variables of closures verified stand-alone are unconstrained
	for _, fv := range fn.FreeVars {
		fr.bindings = append(fr.bindings, e.freshVal(st, "fv_"+fv.Name(), fv.Type()))
	}
	e.freshResultsAlias = false
	entry := st.clone()
	if c != nil {
		if c.Trusted {
			res.Trusted = true
		}
		names := map[string]Val{}
		for i, prm := range fn.Params {
			names[prm.Name()] = args[i]
			if i < len(c.ParamNames) && c.ParamNames[i] != "" {
				names[c.ParamNames[i]] = args[i]
			}
		}
		env := &evalEnv{e: e, st: entry, old: entry, lookup: func(n string) (Val, bool) { v, ok := names[n]; return v, ok }, fr: fr}
		for _, r := range c.Requires {
			e.vc.assume(e.evalBool(r.expr, env))
		}
		// vacuity guard: requires satisfiable
		o := e.addObl(st, "vacuity", "requires_satisfiable", "false", fn.Pos())
		o.Kind = "vacuity"
	}
	rets := fr.run(st, args)
	e.vc.curTag = -1
	if c != nil && len(e.oos) == 0 && len(rets) > 0 {
		rts := resultTypes(fn.Signature)
		// merge all returns into one final state: one obligation per ensures clause (names independent of the number of returns)
		var conds []string
		var sts []*State
		for _, r := range rets {
			conds = append(conds, r.cond)
			sts = append(sts, r.st)
		}
		fin := e.mergeStates(conds, sts)
		names := map[string]Val{}
		for i, prm := range fn.Params {
			names[prm.Name()] = args[i]
			if i < len(c.ParamNames) && c.ParamNames[i] != "" {
				names[c.ParamNames[i]] = args[i]
			}
		}
		for i := range rts {
			v := rets[len(rets)-1].vals[i]
			for j := len(rets) - 2; j >= 0; j-- {
				v = fr.iteVal(rets[j].cond, rets[j].vals[i], v)
			}
			if v.S != "" && v.S != "addr" && len(v.Tup) == 0 {
				v.S = e.vc.define("result", e.vc.sortOf(rts[i]), v.S)
			}
			if i < len(c.ResultNames) && c.ResultNames[i] != "" {
				names[c.ResultNames[i]] = v
			}
			e.outputs = append(e.outputs, v)
		}
		_ = names
		// one obligation per ensures clause: the conjunction over all return paths, each evaluated in its own state
		// (simpler terms than a merged state; the obligation name does not depend on the number of returns)
		type retEnv struct {
			cond string
			env  *evalEnv
		}
		var renvs []retEnv
		for _, r := range rets {
			rn := map[string]Val{}
			for i, prm := range fn.Params {
				rn[prm.Name()] = args[i]
				if i < len(c.ParamNames) && c.ParamNames[i] != "" {
					rn[c.ParamNames[i]] = args[i]
				}
			}
			for i := range rts {
				if i < len(c.ResultNames) && c.ResultNames[i] != "" && i < len(r.vals) {
					rn[c.ResultNames[i]] = r.vals[i]
				}
			}
			rst := r.st.clone()
			rst.cond = r.cond
			renvs = append(renvs, retEnv{r.cond, &evalEnv{e: e, st: rst, old: entry, lookup: func(n string) (Val, bool) { v, ok := rn[n]; return v, ok }, fr: fr}})
		}
		tt := &State{cond: "true", heaps: map[string]string{}, top: fin.top}
		for _, en := range c.Ensures {
			var parts []string
			for _, re := range renvs {
				parts = append(parts, implies(re.cond, e.evalBool(en.expr, re.env)))
			}
			e.addObl(tt, "ensures", en.label, and(parts...), fn.Pos())
		}
		e.frameObls(fin, entry, c)
		for ri, r := range rets {
			rst := r.st.clone()
			rst.cond = r.cond
			o := e.addObl(rst, "cover", fmt.Sprintf("return%d", ri), "false", r.pos)
			o.Kind = "cover"
		}
	}
	for _, o := range e.vc.obls {
		o.inVals, o.outVals, o.prog = args, e.outputs, p
	}
	res.Obls = e.vc.obls
	res.OutOfSubset = e.oos
	res.ContractErrs = dedup(e.contractErrs)
	if len(e.contractErrs) > 0 || len(e.oos) > 0 {
		// a contract that cannot be evaluated (stale names) or a function outside the subset proves nothing:
		// no obligation of this function may count as discharged
		why := "contract cannot be evaluated against the current source: " + strings.Join(res.ContractErrs, "; ")
		if len(e.oos) > 0 {
			why = "function outside the supported subset: " + strings.Join(e.oos, "; ")
		}
		for _, o := range res.Obls {
			o.Status = "undecided"
			o.Solver = "none"
			o.Model = why
		}
	}
	for n := range e.vc.notes {
		res.Notes = append(res.Notes, n)
	}
	sort.Strings(res.Notes)
	for k := range e.usedContracts {
		res.UsedContracts = append(res.UsedContracts, k)
	}
	sort.Strings(res.UsedContracts)
	for k := range e.calledFns {
		res.Called = append(res.Called, k)
	}
	return res
}

// frameObls: ghost stores whose value changed must appear in the contract's modifies clause.
func (e *Engine) frameObls(st, entry *State, c *Contract) {
	allowed := map[string]bool{}
	for _, m := range e.expandMods(c.Modifies) {
		allowed[e.modName(m)] = true
	}
	if allowed["G_*"] {
		return
	}
	var ks []string
	for k := range st.heaps {
		if strings.HasPrefix(k, "G_") {
			ks = append(ks, k)
		}
	}
	sort.Strings(ks)
	for _, k := range ks {
		base := ghostBase(k)
		if allowed[k] || allowed[base] {
			continue
		}
		cur := st.heaps[k]
		old := e.heap(entry, k, e.heapSorts[k])
		if cur == old {
			continue
		}
		e.addObl(st, "frame", k, eq(cur, old), e.root.Pos())
	}
}

func ghostBase(k string) string {
	for _, suf := range []string{"_v", "_d"} {
		if strings.HasSuffix(k, suf) {
			return strings.TrimSuffix(k, suf)
		}
	}
	return k
}

// invoke handles interface method calls.
func (fr *Frame) invoke(ctx *callCtx) Val {
	e := fr.e
	if h, ok := invokeSpecs[ctx.name]; ok {
		return h(ctx)
	}
	mname := ctx.common.Method.Name()
	if h, ok := invokeByMethod[mname]; ok {
		if v, handled := h(ctx); handled {
			return v
		}
	}
	if isDropped(ctx.name) {
		return fr.pureHavoc(ctx)
	}
	if target := e.bindInvoke(ctx.common); target != nil {
		// the interface value holds the keeper: unbox it to the implementation's receiver type
		if recv := target.Signature.Recv(); recv != nil && len(ctx.args) > 0 {
			rt := recv.Type()
			_, key := e.typeTag(rt)
			m := mangle(key)
			srt := e.vc.sortOf(rt)
			e.vc.declFun("box_"+m, []string{srt}, "Iface")
			e.vc.declFun("unbox_"+m, []string{"Iface"}, srt)
			ctx.args[0] = Val{S: e.vc.define("recv", srt, app("unbox_"+m, ctx.args[0].S)), T: rt}
		}
		return fr.staticCall(ctx, target)
	}
	if k := ifaceMethodKey(ctx.common); k != "" {
		if c := e.prog.Contracts[k]; c != nil {
			// assumed contract on a dependency behind one of layer's expected-keeper interfaces
			e.note("assumed", "assumed contract on dependency: "+k)
			cs := sigOfMethod(ctx.common)
			return fr.logRetSig(ctx, cs, fr.contractCallSig(ctx, cs, c))
		}
	}
	if pureInvoke(ctx.common) {
		return fr.pureHavoc(ctx)
	}
	e.note("unmodelled", "interface call without spec: "+ctx.name)
	// interfaces of the storage/encoding libraries cannot reach the module stores through layer code
	libIface := false
	for _, p := range []string{"(cosmossdk.io/collections/codec.", "(cosmossdk.io/core/store.", "(io.", "(fmt.", "(sort.", "(encoding", "(hash.", "(cosmossdk.io/collections."} {
		if strings.HasPrefix(ctx.name, p) {
			libIface = true
		}
	}
	return fr.havocCall(ctx, !libIface)
}

var invokeByMethod = map[string]func(c *callCtx) (Val, bool){}

func init() {
	invokeByMethod["Error"] = func(c *callCtx) (Val, bool) { return c.fr.pureHavoc(c), true }
}

// bindInvoke resolves a keeper-interface call to the layer implementation wired in app.go (trusted binding T4).
func (e *Engine) bindInvoke(cc *ssa.CallCommon) *ssa.Function {
	it := types.Unalias(cc.Value.Type())
	np := namedPath(it)
	if !strings.HasPrefix(np, modPath) {
		return nil
	}
	// expected-keeper interfaces: <module>/types.<X>Keeper -> x/<x>/keeper.Keeper
	name := np[strings.LastIndex(np, ".")+1:]
	if !strings.HasSuffix(name, "Keeper") {
		return nil
	}
	mod := strings.ToLower(strings.TrimSuffix(name, "Keeper"))
	switch mod {
	case "oracle", "reporter", "dispute", "bridge", "registry", "mint":
	default:
		return nil
	}
	key := "x/" + mod + "/keeper.Keeper." + cc.Method.Name()
	if fn, ok := e.prog.Funcs[key]; ok {
		e.note("binding", np+"."+cc.Method.Name()+" -> "+key)
		return fn
	}
	return nil
}

func describeFunc(fn *ssa.Function) string {
	return fn.String()
}

func dedup(xs []string) []string {
	seen := map[string]bool{}
	var out []string
	for _, x := range xs {
		if !seen[x] {
			seen[x] = true
			out = append(out, x)
		}
	}
	return out
}
