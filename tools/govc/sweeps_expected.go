package main

// Documented site lists for the structural sweeps. These are the property statements' own enumerations
// ("supply changes only through ...") written down per call site; they are hand-maintained and a site that is
// not listed is reported.

// layer functions that directly mint or burn; their callers are enumerated too
var supplyChangingFuncs = map[string]bool{
	"x/oracle/keeper.Keeper.transfer":              true,
	"x/bridge/keeper.Keeper.ClaimDeposit":          true,
	"x/bridge/keeper.Keeper.WithdrawTokens":        true,
	"x/dispute/keeper.Keeper.ExecuteVote":          true,
	"x/dispute/keeper.msgServer.WithdrawFeeRefund": true,
	"x/mint/keeper.Keeper.MintCoins":               true,
	"x/mint.MintBlockProvision":                    true,
}

var expectedSupplyWriters = map[string]string{
	"x/bridge/keeper.Keeper.ClaimDeposit -> MintCoins@(x/bridge/types.BankKeeper).MintCoins":             "claimed bridge deposit: + reported amount",
	"x/bridge/keeper.Keeper.WithdrawTokens -> BurnCoins@(x/bridge/types.BankKeeper).BurnCoins":           "bridge withdrawal: - withdrawn amount",
	"x/dispute/keeper.Keeper.ExecuteVote -> BurnCoins@(x/dispute/types.BankKeeper).BurnCoins":            "dispute burn (half of burn amount / whole if no voters)",
	"x/dispute/keeper.msgServer.WithdrawFeeRefund -> BurnCoins@(x/dispute/types.BankKeeper).BurnCoins":   "dispute dust burn",
	"x/mint.MintBlockProvision -> MintCoins@(x/mint/keeper.Keeper).MintCoins":                            "time-based minting (begin block)",
	"x/mint.MintBlockProvision -> call@x/mint/keeper.Keeper.MintCoins":                                   "time-based minting (begin block)",
	"x/mint/keeper.Keeper.MintCoins -> MintCoins@(x/mint/types.BankKeeper).MintCoins":                    "time-based minting wrapper",
	"x/bridge/keeper.msgServer.ClaimDeposits -> call@x/bridge/keeper.Keeper.ClaimDeposit":               "MsgClaimDeposits handler",
	"x/bridge/keeper.msgServer.WithdrawTokens -> call@x/bridge/keeper.Keeper.WithdrawTokens":            "MsgWithdrawTokens handler",
	"x/dispute.CheckClosedDisputesForExecution -> call@x/dispute/keeper.Keeper.ExecuteVote":             "begin-block execution of resolved disputes",
	"x/mint.BeginBlocker -> call@x/mint.MintBlockProvision":                                             "mint begin blocker",
	"x/oracle/keeper.msgServer.Tip -> call@x/oracle/keeper.Keeper.transfer":                             "MsgTip handler",
	"x/oracle/keeper.Keeper.transfer -> BurnCoins@(x/oracle/types.BankKeeper).BurnCoins":                 "2% tip burn",
}

var expectedMapRanges = map[string]string{
	"app.App.AutoCliOpts -> range map[string]interface{}":                                    "CLI option assembly at start-up, not block execution",
	"app.App.ModuleAccountAddrs -> range map[string][]string":                                "builds a map from a map at start-up: insertion order is irrelevant",
	"lib.GetSortedKeys -> range map[K]V":                                                     "collects keys and sorts them (keys are distinct, order total)",
	"x/bridge/keeper.Keeper.PowerDiff -> range map[string]int64":                             "commutative accumulation: obligations x/bridge/keeper.Keeper.PowerDiff#order.loop2.*",
	"x/oracle/keeper.Keeper.AllocateRewards -> range map[string]keeper.ReportersReportCount": "collect-then-sort: the collected addresses are distinct map keys and the payout loop runs in strictly increasing address order (loop 2/3 invariants of AllocateRewards)",
	"x/oracle/keeper.Keeper.WeightedMode -> range map[string]int":                            "maximum with a fixed tie rule: obligations x/oracle/keeper.Keeper.WeightedMode#order.loop2.* and #ensures.equal_weight_ties_resolved_by_fixed_rule",
}

var expectedUnstableSorts = map[string]string{
	"lib.GetSortedKeys -> sort.Sort":       "keys of a map are distinct; the order is total",
	"lib.Median -> sort.Slice":             "sorts integers: equal elements are indistinguishable (C20 proves the result)",
	"lib.Median[int32] -> sort.Slice":      "sorts integers: equal elements are indistinguishable (C20 proves the result)",
	"lib.Median[int64] -> sort.Slice":      "sorts integers: equal elements are indistinguishable (C20 proves the result)",
	"lib.Median[uint32] -> sort.Slice":     "sorts integers: equal elements are indistinguishable (C20 proves the result)",
	"lib.Median[uint64] -> sort.Slice":     "sorts integers: equal elements are indistinguishable (C20 proves the result)",
	"x/bridge/keeper.Keeper.GetCurrentValidatorsEVMCompatible -> sort.Slice": "power descending then EVM address ascending: total on members with distinct EVM addresses (uniqueness of registered EVM addresses is assumed)",
	"x/oracle/keeper.Keeper.AllocateRewards -> sort.Slice":                   "sort by address; addresses are distinct map keys (strict order proved as loop invariant)",
}

var expectedForbiddenSources = map[string]string{
	"app.VoteExtHandler.GetOperatorAddress -> github.com/spf13/viper.GetString": "vote extension construction reads node-local key configuration by design; its output reaches state only through the proposal handler (C17)",
	"app.VoteExtHandler.InitKeyring -> github.com/spf13/viper.GetString":        "vote extension construction reads node-local key configuration by design (C17)",
	"app.VoteExtHandler.SignMessage -> github.com/spf13/viper.GetString":        "vote extension construction reads node-local key configuration by design (C17)",
	"x/mint.BeginBlocker -> time.Now[telemetry-only]":                           "wall clock value flows only into a telemetry call",
	"x/oracle/utils.Salt -> crypto/rand.Read":                                   "client-side helper for commit/reveal salts; not called from block execution",
}

var expectedGoroutines = map[string]string{
	"app.New -> go statement": "daemon start-up in app construction, not block execution",
	"x/bridge/types.RegisterQueryHandlerFromEndpoint -> go statement":   "generated grpc-gateway code (query serving)",
	"x/dispute/types.RegisterQueryHandlerFromEndpoint -> go statement":  "generated grpc-gateway code (query serving)",
	"x/oracle/types.RegisterQueryHandlerFromEndpoint -> go statement":   "generated grpc-gateway code (query serving)",
	"x/registry/types.RegisterQueryHandlerFromEndpoint -> go statement": "generated grpc-gateway code (query serving)",
	"x/reporter/types.RegisterQueryHandlerFromEndpoint -> go statement": "generated grpc-gateway code (query serving)",
}
