package main

// Documented site lists for the structural sweeps. These are the property statements' own enumerations
// ("supply changes only through ...") written down per call site; they are hand-maintained and a site that is
// not listed is reported.

// layer functions that directly mint or burn; their callers are enumerated too
var supplyChangingFuncs = map[string]bool{
	"x/oracle/keeper.Keeper.transfer":              true,
	"x/bridge/keeper.Keeper.ClaimDeposit":          true,
	"x/bridge/keeper.Keeper.WithdrawTokens":        true,
	"x/dispute/keeper.Keeper.ExecuteVote":          true,
	"x/dispute/keeper.msgServer.WithdrawFeeRefund": true,
	"x/mint/keeper.Keeper.MintCoins":               true,
	"x/mint.MintBlockProvision":                    true,
}

var expectedSupplyWriters = map[string]string{
	"x/bridge/keeper.Keeper.ClaimDeposit -> MintCoins@(x/bridge/types.BankKeeper).MintCoins":             "claimed bridge deposit: + reported amount",
	"x/bridge/keeper.Keeper.WithdrawTokens -> BurnCoins@(x/bridge/types.BankKeeper).BurnCoins":           "bridge withdrawal: - withdrawn amount",
	"x/dispute/keeper.Keeper.ExecuteVote -> BurnCoins@(x/dispute/types.BankKeeper).BurnCoins":            "dispute burn (half of burn amount / whole if no voters)",
	"x/dispute/keeper.msgServer.WithdrawFeeRefund -> BurnCoins@(x/dispute/types.BankKeeper).BurnCoins":   "dispute dust burn",
	"x/mint.MintBlockProvision -> MintCoins@(x/mint/keeper.Keeper).MintCoins":                            "time-based minting (begin block)",
	"x/mint.MintBlockProvision -> call@x/mint/keeper.Keeper.MintCoins":                                   "time-based minting (begin block)",
	"x/mint/keeper.Keeper.MintCoins -> MintCoins@(x/mint/types.BankKeeper).MintCoins":                    "time-based minting wrapper",
	"x/bridge/keeper.msgServer.ClaimDeposits -> call@x/bridge/keeper.Keeper.ClaimDeposit":               "MsgClaimDeposits handler",
	"x/bridge/keeper.msgServer.WithdrawTokens -> call@x/bridge/keeper.Keeper.WithdrawTokens":            "MsgWithdrawTokens handler",
	"x/dispute.CheckClosedDisputesForExecution -> call@x/dispute/keeper.Keeper.ExecuteVote":             "begin-block execution of resolved disputes",
	"x/mint.BeginBlocker -> call@x/mint.MintBlockProvision":                                             "mint begin blocker",
	"x/oracle/keeper.msgServer.Tip -> call@x/oracle/keeper.Keeper.transfer":                             "MsgTip handler",
	"x/oracle/keeper.Keeper.transfer -> BurnCoins@(x/oracle/types.BankKeeper).BurnCoins":                 "2% tip burn",
}
