package main

var propDefs = map[string]*PropDef{}

func reg(d *PropDef) { propDefs[d.ID] = d }

func fc(keys ...string) []FuncClaim {
	var out []FuncClaim
	for _, k := range keys {
		out = append(out, FuncClaim{Key: k})
	}
	return out
}

func fcNP(keys ...string) []FuncClaim {
	var out []FuncClaim
	for _, k := range keys {
		out = append(out, FuncClaim{Key: k, NoPanic: true})
	}
	return out
}

func init() {
	reg(&PropDef{
		ID:    "C20",
		Title: "Price daemon serves the true median of fresh exchange prices under concurrency",
		Funcs: fcNP("lib.Median[uint64]", "lib.Median[uint32]", "lib.Median[int64]", "lib.Median[int32]"),
		NotDecided: []string{
			"the schedule quantifier (all interleavings, data-race freedom as such): no concurrency in the VC semantics",
		},
	})
	reg(&PropDef{
		ID:    "C03",
		Title: "Token supply changes only by the documented, exactly quantified events",
		Funcs: fcNP("x/mint/types.Minter.CalculateBlockProvision", "x/mint/keeper.Keeper.MintCoins", "x/mint/keeper.Keeper.SendInflationaryRewards",
			"x/mint.MintBlockProvision", "x/mint.SetPreviousBlockTime", "x/mint.BeginBlocker", "x/mint/keeper.msgServer.Init", "x/oracle/keeper.Keeper.transfer"),
		Sweeps: []string{"supply_writers"},
		Assumptions: []string{
			"block-time gap below 62769647725999999 ns (about 726 days), the largest for which DailyMintRate*elapsed_ms fits in int64 (precondition gap_below_overflow)",
			"bank keeper: MintCoins/BurnCoins/Send*/InputOutputCoins change balances and supply exactly as specified in tools/govc/ghost.go and specs_sdk.go; the sum of balances equals supply is the bank module's own invariant",
			"module account addresses of mint, fee_collector and time_based_rewards are pairwise distinct",
		},
		NotDecided: []string{
			"supply changes made by SDK modules themselves (slashing burn, IBC transfer mint/burn, gov deposit burn)",
			"bridge and dispute mint/burn amounts are decided under C14 and C13",
		},
	})
}
