package main

var propDefs = map[string]*PropDef{}

func reg(d *PropDef) { propDefs[d.ID] = d }

func fc(keys ...string) []FuncClaim {
	var out []FuncClaim
	for _, k := range keys {
		out = append(out, FuncClaim{Key: k})
	}
	return out
}

func fcNP(keys ...string) []FuncClaim {
	var out []FuncClaim
	for _, k := range keys {
		out = append(out, FuncClaim{Key: k, NoPanic: true})
	}
	return out
}

func init() {
	reg(&PropDef{
		ID:    "C20",
		Title: "Price daemon serves the true median of fresh exchange prices under concurrency",
		Funcs: fcNP("lib.Median[uint64]", "lib.Median[uint32]", "lib.Median[int64]", "lib.Median[int32]"),
		NotDecided: []string{
			"the schedule quantifier (all interleavings, data-race freedom as such): no concurrency in the VC semantics",
		},
	})
	reg(&PropDef{
		ID:    "C03",
		Title: "Token supply changes only by the documented, exactly quantified events",
		Funcs: fcNP("x/mint/types.Minter.CalculateBlockProvision"),
	})
}
