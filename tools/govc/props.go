package main

var propDefs = map[string]*PropDef{}

func reg(d *PropDef) { propDefs[d.ID] = d }

func fc(keys ...string) []FuncClaim {
	var out []FuncClaim
	for _, k := range keys {
		out = append(out, FuncClaim{Key: k})
	}
	return out
}

func fcNP(keys ...string) []FuncClaim {
	var out []FuncClaim
	for _, k := range keys {
		out = append(out, FuncClaim{Key: k, NoPanic: true})
	}
	return out
}

func init() {
	reg(&PropDef{
		ID:    "C20",
		Title: "Price daemon serves the true median of fresh exchange prices under concurrency",
		Funcs: append(fcNP("lib.Median[uint64]", "lib.Median[uint32]", "lib.Median[int64]", "lib.Median[int32]",
			"daemons/pricefeed/types.PriceTimestamp.UpdatePrice", "daemons/pricefeed/types.PriceTimestamp.GetValidPrice"),
			fc("daemons/server/types/pricefeed.MarketToExchangePrices.UpdatePrices", "daemons/server/types/pricefeed.MarketToExchangePrices.GetValidMedianPrices",
				"daemons/server/types/pricefeed.ExchangeToPrice.UpdatePrices", "daemons/server/types/pricefeed.ExchangeToPrice.GetValidPrices")...),
		LockEntries: true,
		Assumptions: []string{
			"lock discipline implies atomicity: when every access to the cache's guarded fields (guarded MarketToExchangePrices.marketToExchangePrices, ExchangeToPrice.exchangeToPriceTimestamp) happens while the executing goroutine holds the cache mutex, concurrent calls of the public methods are serialised and free of data races, so the sequential contracts describe every interleaving. This mutual-exclusion meta-argument (and sync.Mutex itself) is trusted; the verifier discharges the discipline: guard.* obligations at every access, lock.* obligations at every Lock/Unlock, caller_holds_the_cache_lock at every call of an ExchangeToPrice method",
			"one ghost flag locked() for the cache mutex: the identity of the mutex instance is not tracked (the server holds one MarketToExchangePrices); objects allocated in the function at hand are not yet shared and need no lock",
			"exported methods of MarketToExchangePrices are entered with no lock held by the calling goroutine (default entry contract for methods without a written one)",
			"PriceTimestamp fields are reached only through ExchangeToPrice (a new direct access path from another package is not swept)",
		},
		NotDecided: []string{
			"the schedule quantifier as such (all interleavings): no concurrency in the VC semantics; it is reduced to the lock discipline above",
			"that GetValidPrices returns EVERY fresh price and each once (completeness / multiplicity over a Go map range: the witness for an existential after an append is not found by the solvers; no multiset view in the contract language); decided: every returned price is a stored price that is fresh at the cut-off, the cut-off is the read time minus the maximum age, freshness per entry (GetValidPrice), forward-only update per entry (UpdatePrice), the median of the collected list (lib.Median); not decided: that a market with fewer fresh prices than MinExchanges is absent from the result",
			"nil-safety on the update path (entries of the update lists and freshly inserted map values); on the read path it is decided under the stated store invariant (stored map values are non-nil)",
		},
	})
	reg(&PropDef{
		ID:    "C03",
		Title: "Token supply changes only by the documented, exactly quantified events",
		Funcs: fcNP("x/mint/types.Minter.CalculateBlockProvision", "x/mint/keeper.Keeper.MintCoins", "x/mint/keeper.Keeper.SendInflationaryRewards",
			"x/mint.MintBlockProvision", "x/mint.SetPreviousBlockTime", "x/mint.BeginBlocker", "x/mint/keeper.msgServer.Init", "x/mint/keeper.Keeper.InitGenesis", "x/oracle/keeper.Keeper.transfer",
			"x/oracle/keeper.msgServer.Tip", "x/bridge/keeper.Keeper.ClaimDeposit", "x/bridge/keeper.Keeper.WithdrawTokens",
			"x/dispute/keeper.Keeper.ExecuteVote", "x/dispute/keeper.msgServer.WithdrawFeeRefund"),
		Sweeps: []string{"supply_writers"},
		Assumptions: []string{
			"block-time gap below 62769647725999999 ns (about 726 days), the largest for which DailyMintRate*elapsed_ms fits in int64 (precondition gap_below_overflow)",
			"bank keeper: MintCoins/BurnCoins/Send*/InputOutputCoins change balances and supply exactly as specified in tools/govc/ghost.go and specs_sdk.go; the sum of balances equals supply is the bank module's own invariant",
			"module account addresses of mint, fee_collector and time_based_rewards are pairwise distinct",
		},
		NotDecided: []string{
			"supply changes made by SDK modules themselves (slashing burn, IBC transfer mint/burn, gov deposit burn)",
			"the reporter-keeper entry points called during settlement have trusted frames (they do not change supply)",
		},
	})
	reg(&PropDef{
		ID:    "C18",
		Title: "Staking transactions cannot move bonded stake more than 5% per 12-hour period",
		Funcs: fcNP("x/reporter/ante.TrackStakeChangesDecorator.AnteHandle", "x/reporter/keeper.Keeper.TrackStakeChange"),
		Sweeps: []string{"ante_chain"},
		Assumptions: []string{
			"message amounts are non-negative and messages are non-nil (ValidateBasic, which runs later in the same ante chain, rejects anything else, so such a transaction never passes admission)",
			"total bonded tokens as returned by the staking keeper (ghost staking.bonded) is not changed by the decorator itself; the rest of the ante chain (next) is havocked",
			"a transaction without stake-adding (resp. undelegate) amount is not constrained by the increase (resp. decrease) bound",
		},
		NotDecided: []string{
			"sequences of transactions within one period: each transaction is checked against bonded stake at its own admission time (the statement's per-transaction reading); no cross-transaction accumulator exists in the code",
		},
	})
	reg(&PropDef{
		ID:    "C06",
		Title: "The aggregate is the true weighted median / weighted mode of the reports",
		Funcs: fcNP("x/oracle/keeper.Keeper.WeightedMedian", "x/oracle/keeper.Keeper.WeightedMode", "x/oracle/keeper.Keeper.SetAggregatedReport"),
		Assumptions: []string{
			"preconditions from the property's quantifier: non-empty report set, every power >= 1 and < 2^63, total power (every prefix total) < 2^63, median values accepted by big.Int.SetString(.,16), one report per reporter",
			"sort.SliceStable returns a permutation ordered with respect to the less closure (trusted sort specification); a sum over a slice sorted in place equals the sum over the slice before sorting (trusted lemma attached to the sort specification)",
			"hexnum/ishex: uninterpreted numeric value / validity of a base-16 numeral (big.Int.SetString specification)",
			"the index form proved here (reports strictly before the chosen index hold less than half, up to and including it at least half, in non-decreasing value order) implies the set form of the statement; that implication is an argument on paper, not machine-checked",
		},
		NotDecided: []string{
			"dispatch in SetAggregatedReport is decided as call preconditions (WeightedMedian is called exactly for rounds whose first report records the method weighted-median, WeightedMode for all others: SetAggregatedReport#call(WeightedMedian/WeightedMode).requires.*); that the recorded method is the data spec's method is SetValue's side (C07)",
			"independence of the chosen median value from arrival order as a theorem over multisets (follows from sortedness + half conditions; not machine-checked)",
		},
	})
	reg(&PropDef{
		ID:    "C19",
		Title: "Privileged changes need governance; messages touch only the signer's assets",
		Funcs: fcNP("x/oracle/keeper.msgServer.UpdateParams", "x/oracle/keeper.msgServer.UpdateCyclelist", "x/registry/keeper.msgServer.UpdateDataSpec",
			"x/registry/keeper.msgServer.RegisterSpec", "x/reporter/keeper.msgServer.UpdateParams", "x/bridge/keeper.msgServer.UpdateSnapshotLimit",
			"x/dispute/keeper.msgServer.UpdateTeam", "x/mint/keeper.msgServer.Init", "x/oracle/keeper.msgServer.Tip", "x/bridge/keeper.msgServer.WithdrawTokens", "x/reporter/keeper.Keeper.HasMin",
			"x/dispute/keeper.Keeper.PayDisputeFee", "x/dispute/keeper.msgServer.ProposeDispute", "x/dispute/keeper.msgServer.AddFeeToDispute", "x/dispute/keeper.msgServer.Vote", "x/reporter/keeper.msgServer.WithdrawTip"),
		Assumptions: []string{
			"k.authority is the governance module address (set in app.go when the keepers are constructed)",
			"bech32 decoding is modelled abstractly: AccAddressFromBech32(s) yields the account addr_str(s)",
			"calls without specification (collections Walk/Clear, hooks, abi decoding) are havocked: results, memory reachable from their arguments, the store they operate on and everything their callbacks can write",
		},
		NotDecided: []string{
			"the signer-only frame for the remaining message types (reporter handlers, bridge claim/attestation requests, dispute refunds and reward claims): proved so far are MsgTip, MsgWithdrawTokens, MsgWithdrawTip (only the signer's credit, the tips escrow and the staking pools), MsgProposeDispute and MsgAddFeeToDispute (only the signer, the staking pools and the dispute escrow change balance; the escrowed stake belongs to the disputed reporter's backers by design) and MsgVote (writes dispute state only)",
			"SDK message types (bank send, staking) are not layer code",
		},
	})
	reg(&PropDef{
		ID:    "C12",
		Title: "Dispute lifecycle, voting power and tally follow the specified rules",
		Funcs: fcNP("x/dispute/keeper.Ratio", "x/dispute/keeper.Keeper.UpdateDispute", "x/dispute/keeper.Keeper.AddReporterVoteCount",
			"x/dispute/keeper.Keeper.SubtractReporterVoteCount", "x/dispute/keeper.Keeper.SetVoterReporterStake", "x/dispute/keeper.Keeper.CloseDispute", "x/dispute/keeper.Keeper.AddDisputeRound",
			"x/dispute/keeper.Keeper.TallyVote", "x/dispute/keeper.msgServer.Vote"),
		Assumptions: []string{
			"votes are stored under their id; the snapshot totals of a dispute (BlockInfo) and the token supply are non-negative",
			"reporter-keeper lookups (Delegation, GetReporterTokensAtBlock, GetDelegatorTokensAtBlock) are read-only; their results are unconstrained and referred to as ret(F,i)",
		},
		NotDecided: []string{
			"status transition relation over ALL writers of Disputes (decided per function: Vote only in state voting and before the end of the voting period, once per address and round, weights as of the dispute's block; TallyVote resolves with quorum exactly when the group weights reach 51 %, without quorum only after the voting period; CloseDispute / AddDisputeRound); the begin-block expiry path (prevote -> failed) is covered for panics only",
			"no group counter overflows / goes below zero: the call-site preconditions of Add/SubtractReporterVoteCount inside SetVoterReporterStake cannot be established locally (they depend on the history of votes) and are not claimed",
			"TallyVote's scaled support/against/invalid sums against the formula (each group contributes its fractions equally): LegacyDec products and quotients per group are not carried; the quorum side (sum of the four group ratios against 51 %) is decided",
		},
	})
	reg(&PropDef{
		ID:    "C11",
		Title: "Slashing takes exactly the category's share of the disputed report's stake",
		Funcs: append(fcNP("x/dispute/keeper.Keeper.GetDisputeFee", "x/dispute/keeper.GetSlashPercentageAndJailDuration", "x/reporter/keeper.Keeper.deductUnbondingDelegation", "x/reporter/keeper.Keeper.deductFromdelegation", "x/reporter/keeper.Keeper.undelegate"),
			fc("x/reporter/keeper.Keeper.EscrowReporterStake", "x/dispute/keeper.Keeper.SlashAndJailReporter", "x/dispute/keeper.msgServer.ProposeDispute", "x/dispute/keeper.msgServer.AddFeeToDispute")...),
		Assumptions: []string{
			"assumed contract on the staking keeper (x/reporter/types.StakingKeeper): unbonding entries returned by GetUnbondingDelegation have non-negative balances; Set/RemoveUnbondingDelegation do not change bank balances, the validator set or total bonded tokens; GetRedelegationsFromSrcValidator only reads",
			"EscrowReporterStake is entered with a stake record whose entries are present and non-negative, a slash amount >= 0 and a stated power >= 1",
		},
		NotDecided: []string{
			"that each backer's share is its proportion of the stake that backed the report (to within one unit): the code divides by power*10^6, not by the recorded total (open finding C11-negative-last-share); decided instead: the recorded parts add up to the slash amount exactly and the record's total is the slash amount",
			"that the second undelegate (redelegation destination) covers what the first could not: its remainder is discarded by the code and the recorded amount is not reduced",
			"jailing durations reaching the reporter module (JailReporter itself is under contract in C10); decided: the reporter is slashed exactly when a payment completes the fee (AddFeeToDispute, ProposeDispute) and a dispute whose fee is complete takes no further payment, hence at most once per dispute",
			"stored validators keep positive delegator shares across Unbond (precondition of the second undelegate call: undecided)",
		},
	})
	reg(&PropDef{
		ID:    "C14",
		Title: "Bridge deposits mint once, conditionally; withdrawals burn what they attest",
		Funcs: append(fcNP("x/bridge/keeper.Keeper.ClaimDeposit", "x/bridge/keeper.Keeper.WithdrawTokens", "x/bridge/keeper.msgServer.WithdrawTokens", "x/bridge/keeper.Keeper.CreateWithdrawalAggregate", "x/oracle/keeper.Keeper.PreventBridgeWithdrawalReport", "x/bridge/keeper.msgServer.ClaimDeposits", "x/bridge/keeper.Keeper.GetWithdrawalReportValue"),
			fc("x/bridge/keeper.Keeper.DecodeDepositReportValue")...),
		Sweeps: []string{"sol_encodings"},
		Assumptions: []string{
			"go-ethereum's abi packing/unpacking as uninterpreted functions with the round-trip axiom unpack(types, pack(types, values), i) = values[i] (tools/govc/abi.go); hex.EncodeToString/DecodeString are inverse; the EVM side's deposit record and withdrawal decoding are pinned textually (sweep sol_encodings)",
			"results of the oracle/bridge lookups used by ClaimDeposit (GetAggregateByIndex, GetValidatorSetTimestampBefore, GetValidatorCheckpointParamsFromStorage) are unconstrained: the guards are proved relative to whatever those calls return (ret(F,i))",
			"the claimer and the decoded recipient are not the bridge module account; the sender of a withdrawal is not the bridge module account",
			"total bonded tokens fit uint64; the withdrawal id is below 2^64-1",
		},
		NotDecided: []string{
			"(decided since the fix 4ede408: the decoded amount and tip are the reported fields divided by 10^12 for every reported size; before it, big.Int.Int64() kept the low 64 bits)",
			"that no reporter can create an aggregate for a withdrawal query as a whole-system statement: decided are that PreventBridgeWithdrawalReport rejects every query data of the form abi.encode(\"TRBBridge\", abi.encode(false, id)) and that SubmitValue rejects what it rejects; the other writers of Aggregates (SetAggregate via SetAggregatedReport) only aggregate submitted reports",
			"the exact amount minted by a batch of claims (decided: every listed deposit passes through ClaimDeposit once, an already claimed or repeated id fails the batch, no unlisted deposit is marked)",
		},
	})
	reg(&PropDef{
		ID:    "C10",
		Title: "Reporting power equals the bonded stake of active selectors, counted once",
		Funcs: append(fcNP("x/reporter/keeper.Keeper.HasMin", "x/reporter/keeper.Keeper.ReporterStake", "x/reporter/keeper.msgServer.SwitchReporter", "x/reporter/keeper.msgServer.CreateReporter",
			"x/reporter/keeper.Keeper.JailReporter", "x/reporter/keeper.Keeper.UnjailReporter", "x/reporter/keeper.msgServer.UnjailReporter"),
			fc("x/reporter/keeper.msgServer.SelectReporter")...),
		Assumptions: []string{
			"staking state as ghost: delegation(a,j)/ndelegations(a) is the sequence IterateDelegatorDelegations visits, staking.validators the validator store; Validator.TokensFromShares = shares*Tokens/DelegatorShares with banker's rounding (cosmos-sdk v0.50.9)",
			"the minimum passed to HasMin is positive",
		},
		NotDecided: []string{
			"ReporterStake is under contract for: jailed/unknown reporters rejected, the stored record's Total equals the returned stake and the listed backers sum to it, both delegation walks run to their end (a walk stopped without error is a violation), nothing else written. That the amount equals the bonded stake of exactly the unlocked selectors (equality of the two counting paths, lock filter) is not decided: the over-cap path reads the staking module through ValidatorI/GetDelegation, which are unconstrained reads here",
			"the selector cap as a state invariant (decided per handler: SelectReporter and SwitchReporter admit a selector only while the reporter has fewer selectors than the cap -- matchcount over the by-reporter index --, a selector record exists at most once per address, un-jailing only after the jail time); CreateReporter's own selection, RemoveSelector and the delegation counters maintained by staking hooks are not under contract",
			"the same token never counts for two reporters within one window (history property)",
		},
	})
	reg(&PropDef{
		ID:    "C09",
		Title: "Each reward is split exactly, non-negatively and in proportion to backing stake",
		Funcs: fcNP("x/oracle/keeper.CalculateRewardAmount", "x/oracle/keeper.Keeper.AllocateRewards", "x/oracle/keeper.Keeper.AllocateTip", "x/reporter/keeper.Keeper.DivvyingTips", "x/reporter/keeper.msgServer.CreateReporter"),
		Assumptions: []string{
			"LegacyDec Mul/Quo as banker's-rounded 18-decimal arithmetic (cosmossdk.io/math v1.3.0), given relationally (is_round_he / is_tdiv)",
			"stored stake records (reporter.Report) have a positive Total and non-nil token origins",
		},
		NotDecided: []string{
			"which aggregates share the time-based rewards (SetAggregatedReport builds the list from the first report's Cyclelist flag; the contract covers the closed rounds and the frame, not the composition of the list): seeded change C09-tbr-eligibility-from-query-flag is not caught",
			"non-negativity of every credit and of the last reporter's remainder, and the n*10^-18 bound between the sum of selector credits and the reward: nonlinear bounds over all reporters are not carried",
			"proportionality across reporters beyond: the weight kept for a reporter is that reporter's own power (under the precondition that a reporter has one power in all aggregates rewarded together); the report count per reporter and the total power have no functional invariant; the call-site preconditions of CalculateRewardAmount and AllocateTip inside AllocateRewards are therefore not claimed",
			"time-based reward list and amount (SetAggregatedReport)",
		},
	})
	reg(&PropDef{
		ID:    "C04",
		Title: "Escrow accounts always cover what the chain says it owes",
		Funcs: fcNP("x/oracle/keeper.msgServer.Tip", "x/oracle/keeper.Keeper.transfer", "x/oracle/keeper.Keeper.AllocateRewards", "x/reporter/keeper.Keeper.DivvyingTips",
			"x/bridge/keeper.Keeper.ClaimDeposit", "x/bridge/keeper.Keeper.WithdrawTokens", "x/reporter/keeper.msgServer.WithdrawTip", "x/dispute/keeper.Keeper.PayDisputeFee",
			"x/dispute/keeper.Keeper.ExecuteVote", "x/dispute/keeper.Keeper.RefundDisputeFee", "x/dispute/keeper.msgServer.WithdrawFeeRefund", "x/dispute/keeper.Keeper.ClaimReward"),
		Assumptions: []string{
			"per-operation conservation only: each function moves exactly the stated amounts between bank accounts and ledgers",
		},
		NotDecided: []string{
			"the block-boundary invariants (oracle account == sum of open tips, tips escrow >= sum of credits, dispute account >= escrow) as inductive invariants over all handlers; dispute account flows beyond the fee payment (PayDisputeFee) and the pay-outs of C13; decided per operation: Tip adds to the round exactly what the oracle account received, WithdrawTip takes from the tips escrow exactly the whole loya it stakes and leaves the fraction credited",
		},
	})
	reg(&PropDef{
		ID:    "C01",
		Title: "Block execution is deterministic across runs and nodes",
		Funcs: fcNP("x/oracle/keeper.Keeper.WeightedMode", "x/bridge/keeper.Keeper.PowerDiff", "x/oracle/keeper.Keeper.AllocateRewards"),
		Sweeps: []string{"map_ranges", "unstable_sorts", "forbidden_sources", "goroutines"},
		Assumptions: []string{
			"cosmos-sdk, collections (key-ordered iteration), iavl and protobuf marshalling are deterministic; only layer's own code is examined",
			"registered EVM addresses are unique among validators (needed for the total order of the bridge validator set sort)",
			"code reached only at start-up, from the CLI, the price daemon or vote-extension construction is outside block execution (sites listed with that reason)",
		},
		NotDecided: []string{
			"bit-for-bit equality of stores and events across nodes (needs determinism of the SDK stack)",
		},
	})
	reg(&PropDef{
		ID:    "C13",
		Title: "Dispute settlement pays out exactly what was paid in, once",
		Funcs: fcNP("x/dispute/keeper.Keeper.ExecuteVote", "x/dispute/keeper.Keeper.ReturnSlashedTokens", "x/dispute/keeper.Keeper.RefundDisputeFee", "x/dispute/keeper.msgServer.WithdrawFeeRefund", "x/dispute/keeper.Keeper.ClaimReward", "x/dispute/keeper.Keeper.CalculateReward", "x/dispute/keeper.msgServer.AddFeeToDispute", "x/dispute/keeper.Keeper.RewardReporterBondToFeePayers"),
		Assumptions: []string{
			"trusted frames for the reporter keeper's ReturnSlashedTokens, FeeRefund, AddAmountToStake (they write reporter/staking state and the two staking pool accounts only); their effect on the stake ledger is C05 and not claimed",
			"stored dispute records are well formed (FeeTotal > 0, SlashAmount >= BurnAmount >= 0, vote result is a defined enum value), Dust is below one loya, the payer is not the dispute module account",
		},
		NotDecided: []string{
			"that all pay-outs together equal fees paid plus escrowed stake over a whole dispute (needs the sum over all payers and voters); the amount of a voter reward (CalculateReward: decided are that it only reads and that a tipper's tips are read as of the block of a round of the dispute; the pro-rata formula over the three groups is not); repeated payments by the same payer and payers of later rounds (suspected defects, no check yet)",
			"RewardReporterBondToFeePayers' pro-rata amount (decided: the coins leave the escrow exactly as they are staked for the fee payer, the sub-loya remainder is below one loya; not decided: amount * 10^6 + remainder equals the payer's share of the bond -- the code divides the 18-decimal share by 10^6 with rounding before truncating, which can round up to the next whole loya when the share ends in twelve or more nines)",
		},
	})
	reg(&PropDef{
		ID:    "C08",
		Title: "Aggregate history is append-only, time-ordered and correctly retrievable",
		Funcs: fcNP("x/oracle/keeper.Keeper.SetAggregate", "x/oracle/keeper.Keeper.FlagAggregateReport",
			"x/oracle/keeper.Keeper.GetTimestampBefore", "x/oracle/keeper.Keeper.GetTimestampAfter", "x/oracle/keeper.Keeper.GetCurrentAggregateReport",
			"x/oracle/keeper.Keeper.GetAggregateBefore", "x/oracle/keeper.Keeper.GetAggregateByIndex", "x/oracle/keeper.Keeper.GetAggregateByTimestamp",
			"x/oracle/keeper.Keeper.GetAggregateBeforeByReporter"),
		Assumptions: []string{
			"collections Walk over a (prefix, uint64) range visits exactly the stored keys within the bounds, in increasing (Descending: decreasing) order of the uint64 component, and returns only the callback's error (collections v0.4.0; Iterate's ErrInvalidIterator for start > end is not modelled)",
			"an index iterator (Indexes.X.MatchExact) yields exactly the stored keys whose index function -- the closure layer passes to indexes.NewMulti, evaluated from its SSA -- equals the reference key, each once, as a snapshot taken at creation; order unspecified",
			"block time is not before 1970 and stored aggregate timestamps fit int64 milliseconds (they are block times); per-query sequence numbers stay below 2^64-1",
			"stored aggregates name their median reporter (AggregateReportIndex < len(Reporters), entry non-nil, valid bech32), the disputed report's reporter is a valid address",
		},
		NotDecided: []string{
			"timestamps strictly increase in creation order: needs block-time monotonicity and at most one aggregate per query per block (SetAggregatedReport is not under contract); SetAggregate itself overwrites an aggregate stored under the same (query, millisecond)",
			"the no-stake-report lookups and GetTimestampBefore's treatment of a stored timestamp 0 as absent (the by-reporter lookup, the exact-timestamp lookup and the neighbour lookups of the bridge snapshot -- C15 CreateSnapshot -- are decided)",
			"that no other function writes oracle.Aggregates (writers: SetAggregate, FlagAggregateReport; checked only for the functions under contract through their frames)",
		},
	})
	reg(&PropDef{
		ID:    "C07",
		Title: "Reports enter only an open round; each round aggregates exactly once",
		Funcs: fcNP("x/oracle/keeper.msgServer.SubmitValue", "x/oracle/keeper.Keeper.DirectReveal", "x/oracle/keeper.Keeper.HandleBridgeDepositDirectReveal",
			"x/oracle/keeper.Keeper.TokenBridgeDepositQuery", "x/oracle/keeper.Keeper.SetValue", "x/oracle/keeper.Keeper.CurrentQuery", "x/oracle/keeper.msgServer.Tip",
			"x/oracle/keeper.Keeper.RotateQueries", "x/oracle/keeper.Keeper.ClearOldqueries", "x/oracle/keeper.Keeper.InitializeQuery",
			"x/oracle/keeper.Keeper.GetCurrentQueryInCycleList", "x/oracle/keeper.msgServer.UpdateCyclelist", "x/oracle/keeper.Keeper.SetAggregatedReport", "x/oracle.EndBlocker",
			"x/oracle/keeper.Keeper.PreventBridgeWithdrawalReport"),
		Assumptions: []string{
			"SetAggregatedReport / EndBlocker are verified under the store invariants stated as their preconditions (a round marked HasRevealedReports is stored under its id and has a report; reports carry their reporter's bech32 string, a power in [1, 2^63), a parsable value; all reports of a round belong to one query; tips are non-negative); SetValue's contract establishes them for the report it writes, the induction over all writers is not carried. The total power of a round is assumed below 2^63 (call-site precondition of the aggregators, not derivable from per-report bounds)",
			"index iterators are snapshots: removing the round being visited does not change the keys still to come",
			"trusted contracts: registry DecodeQueryType / DecodeValue / IsValueDecodable / Remove0xPrefix (ABI and string handling), reporter ReporterStake (frame and 0 <= stake < 2^64 whole tokens)",
			"collections Walk / Iterate / Clear and the ghost cardinality count(store) as specified in tools/govc/walk.go and indexiter.go; crypto.Keccak256 of one argument is a function of its content (keccak)",
			"round and window arithmetic stays below 2^64 (QuerySequencer < 2^64-2, block height + report window < 2^64); the tipper address passed ValidateBasic",
		},
		NotDecided: []string{
			"direct-reveal and tip paths for bridge queries beyond SubmitValue (PreventBridgeWithdrawalReport itself is decided: query data abi.encode(\"TRBBridge\", abi.encode(false, id)) is always rejected)",
			"jail status and selector bookkeeping of the reporter (inside ReporterStake, C10)",
			"that the aggregate of a closed round is computed with the method of its data spec (dispatch on the first report's AggregateMethod) and stored exactly once: SetAggregatedReport's contract covers removal of exactly the closed rounds with reports and the frame (open rounds and rounds without reports untouched), not the per-round aggregate",
			"that the cycle list order is fixed: GetCyclelist returns the stored queries in key order, which the iterator model leaves unspecified",
		},
	})
	reg(&PropDef{
		ID:    "C02",
		Title: "No accepted transaction sequence can make block processing fail",
		Funcs: fcNP("x/oracle/keeper.Keeper.WeightedMedian", "x/oracle/keeper.Keeper.WeightedMode", "x/oracle/keeper.Keeper.SetValue",
			"x/oracle/keeper.Keeper.RotateQueries", "x/oracle/keeper.Keeper.GetCurrentQueryInCycleList", "x/oracle/keeper.Keeper.GetCyclelist", "x/oracle/keeper.Keeper.InitCycleListQuery",
			"x/oracle/keeper.msgServer.UpdateCyclelist", "x/oracle/keeper.Keeper.ClearOldqueries", "x/oracle/keeper.Keeper.SetAggregatedReport", "x/oracle/keeper.Keeper.AllocateRewards", "x/oracle.EndBlocker", "x/bridge/keeper.Keeper.CreateNewReportSnapshots", "x/dispute/keeper.Keeper.UpdateDispute",
			"x/dispute.CheckOpenDisputesForExpiration", "x/dispute.CheckClosedDisputesForExecution", "x/dispute/keeper.Keeper.CloseDispute", "x/dispute/keeper.Keeper.AddDisputeRound", "x/reporter/keeper.Keeper.TrackStakeChange",
			"x/mint.BeginBlocker", "x/mint.MintBlockProvision", "x/mint.SetPreviousBlockTime", "x/mint/keeper.Keeper.SendInflationaryRewards", "x/mint/keeper.Keeper.MintCoins", "x/mint/types.Minter.CalculateBlockProvision"),
		Assumptions: []string{
			"per-function: each block-processing function is shown not to fail or panic under a stated store invariant (its requires), and the writers under contract are shown to establish that invariant; the induction over all handlers and blocks is not carried",
			"bank.InputOutputCoins fails when the input or an output holds no positive coins (types.ValidateInputOutputs, cosmos-sdk v0.50.9) -- added to the trusted bank specification after the 1 ms mint defect",
			"block time strictly increases between blocks (CometBFT BFT time) and the mint module account balance is non-negative",
			"trusted contracts of C07 (registry decoding helpers); a submitted value that passes DataSpec.ValidateValue is a non-empty hex string after an optional 0x prefix",
		},
		NotDecided: []string{
			"SetAggregatedReport is shown panic-free (the index microReports[0], iterator use) and to satisfy the aggregators' preconditions under the stated store invariants, but not error-free: errors of SetAggregate/AllocateRewards/Query.Remove propagate; the bridge and reporter block functions are not under contract; the dispute begin-block loops are covered for panics of the loop and iterator only (TallyVote/ExecuteVote errors propagate and are not excluded)",
			"RotateQueries can still return an error when a cycle-list entry is not decodable query data (UpdateCyclelist does not validate the entries) -- governance-only input, not excluded",
			"InitializeQuery / GetDataSpec failures for unregistered query types inside RotateQueries",
		},
	})
	reg(&PropDef{
		ID:    "C05",
		Title: "The staked-token ledger is always backed by the staking pools",
		Funcs: fcNP("x/reporter/keeper.Keeper.FeefromReporterStake", "x/reporter/keeper.Keeper.deductUnbondingDelegation", "x/reporter/keeper.Keeper.deductFromdelegation", "x/reporter/keeper.Keeper.undelegate",
			"x/reporter/keeper.Keeper.ReturnSlashedTokens", "x/reporter/keeper.Keeper.FeeRefund", "x/reporter/keeper.Keeper.AddAmountToStake", "x/reporter/keeper.msgServer.WithdrawTip"),
		Assumptions: []string{
			"assumed contract on StakingKeeper.Delegate: with subtractAccount=false it moves coins only between the two staking pools; GetBondedValidators (raw store iterator) is a trusted read",
			"assumed contracts on the staking keeper (x/reporter/types.StakingKeeper): Unbond returns the non-negative token amount it removed from the validator and moves no coins; unbonding entries have non-negative balances; Set/RemoveUnbondingDelegation change no bank balance",
			"the ledger side is the staking module's: 'the amount leaves the ledger' means the sum of Unbond results (retsum(Unbond, 0)), resp. the reduction of unbonding-entry balances written back",
			"every stored validator has positive delegator shares (staking invariant)",
		},
		NotDecided: []string{
			"that the validator record handed to the staking keeper's Delegate is a currently stored one: decided at the call sites of ReturnSlashedTokens and WithdrawTip (precondition of the assumed Delegate contract), undecided in FeeRefund and AddAmountToStake (a record cached across iterations of FeeRefund goes stale after the first Delegate): seeded change C05-fee-refund-reuses-stale-validator is not caught",
			"per-backer records of a second fee payment for the same dispute (the earlier records are appended: needs a sum-over-concatenation lemma)",
			"EscrowReporterStake is under contract for its record accounting only (C11); WithdrawTip: the staked amount is delegated from the bonded source to a bonded validator and the same amount leaves the tips escrow for the bonded pool (that Delegate itself adds it to the ledger is the assumed staking contract); for ReturnSlashedTokens / FeeRefund / AddAmountToStake the decided part is: every Delegate takes the bonded pool as token source with subtractAccount=false (matching the dispute module's transfer into the bonded pool), without a winning purse every backer gets back exactly what was taken, the record is consumed; the pro-rata amounts with a purse or a partial fee refund (at most one unit lost per entry) are not decided",
			"FeeRefund and AddAmountToStake index the list of bonded validators at 0 without a length check (a chain without bonded validators): panic obligation not claimed",
			"the pool >= ledger invariant itself is the staking module's and is not modelled",
		},
	})
	reg(&PropDef{
		ID:    "C16",
		Title: "Validator-set checkpoints form a chain an EVM light client can always follow",
		Funcs: fcNP("x/bridge/keeper.Keeper.CompareAndSetBridgeValidators", "x/bridge/keeper.Keeper.SetBridgeValidatorParams", "x/bridge/keeper.Keeper.CalculateValidatorSetCheckpoint",
			"x/bridge/keeper.Keeper.LastSavedValidatorSetStale", "x/bridge/keeper.Keeper.GetValidatorSetTimestampBefore", "x/bridge/keeper.Keeper.GetCurrentValidatorsEVMCompatible", "x/bridge/keeper.Keeper.PowerDiff",
			"x/bridge/keeper.Keeper.GetCurrentValidatorSetEVMCompatible", "x/bridge/keeper.Keeper.SetBridgeValsetSignature", "app.VoteExtHandler.CheckAndSignValidatorCheckpoint"),
		Assumptions: []string{
			"trusted frames: EncodeAndHashValidatorSet (ABI packing and hashing, C15) and the staking keeper's GetAllValidators (assumed contract: reads only); codec MustMarshal is a pure read",
			"block time is at least two weeks after 1970 and the checkpoint index stays below 2^64-1; stored validator sets have non-nil members",
			"the byte-wise comparison of the saved and the current set (cdc.MustMarshal) is not modelled: the update rule is stated through the results of LastSavedValidatorSetStale and PowerDiff on the paths that call them",
		},
		NotDecided: []string{
			"membership: decided that every member has non-zero power and carries the consensus power (tokens / 10^6) of a bonded validator with a registered EVM address; not decided: that its address is that validator's registered one (byte-content equality under an existential witness is beyond the solvers) and completeness (every such validator is a member); the 5 % measure PowerDiff is decided as 'the sum of the absolute per-address differences' in terms of its calls of absInt64, not as a closed formula over the two sets",
			"total power below 2^63 at the call of SetBridgeValidatorParams (needed for threshold = total*2/3 without wrap-around) is a precondition that CompareAndSetBridgeValidators cannot establish from the unconstrained staking results",
			"strictly increasing checkpoint timestamps (needs block-time monotonicity and at most one checkpoint per block) and the contract's acceptance rule (EVM side)",
		},
	})
	reg(&PropDef{
		ID:    "C15",
		Title: "Bridge byte encodings agree with what the EVM contracts compute and verify",
		Funcs: fcNP("x/bridge/keeper.Keeper.SetBridgeValidatorParams", "x/bridge/keeper.Keeper.CalculateValidatorSetCheckpoint",
			"x/bridge/keeper.Keeper.EncodeOracleAttestationData", "x/bridge/keeper.Keeper.GetDepositQueryId", "x/bridge/keeper.Keeper.GetWithdrawalQueryId",
			"x/bridge/keeper.Keeper.GetWithdrawalReportValue", "x/bridge/keeper.Keeper.CreateSnapshot"),
		Sweeps: []string{"sol_encodings"},
		Assumptions: []string{
			"the Solidity side is compared textually: each abi.encode / abi.decode site of BlobstreamO.sol, Constants.sol and TokenBridge.sol that a Go encoder must agree with is pinned (comments and whitespace removed) to the field list the Go contract states; the correspondence pin <-> Go clause is by construction of the contract text, not derived",
			"total validator power below 2^63 (the threshold is computed as total*2/3 in uint64)",
			"go-ethereum's abi.Arguments.Pack is an uninterpreted function abi_pack(type names, values) of the list of Solidity type names (abi.NewType) and the list of packed values; crypto.Keccak256 is an uninterpreted function; hex.DecodeString yields hexdec(s); copying into a fresh [32]byte yields pad(content, 32). The contracts therefore decide that the chain packs exactly the fields, in the order and with the Solidity types the bridge contracts use (abi.encode(...) in the property text), not the byte layout abi.encode itself produces (go-ethereum trusted to implement the ABI specification)",
			"z := new(big.Int); z.SetUint64(x) rebinds z (same basic block); other *big.Int receivers keep result-only semantics",
		},
		NotDecided: []string{
			"the validator-set hash (hand-rolled dynamic-array encoding with binary.BigEndian.PutUint64 over byte slices) against the Solidity abi.encode(Validator[]): byte-level layout is outside the encoding model; only the power threshold (two thirds of total power), the checkpoint digest's field list and the mutual consistency of the values stored with a checkpoint (hash, threshold, timestamp, index) are decided",
			"the signature digest convention (sha-256 of the digest, recoverable secp256k1)",
		},
	})
	reg(&PropDef{
		ID:    "C17",
		Title: "Vote-extension data reaches state only as signed; proposals stay coherent",
		Funcs: fcNP("app.ProposalHandler.ProcessProposalHandler", "app.ProposalHandler.PreBlocker", "app.ProposalHandler.CheckInitialSignaturesFromLastCommit",
			"app.ProposalHandler.CheckValsetSignaturesFromLastCommit", "app.ProposalHandler.CheckOracleAttestationsFromLastCommit", "app.ProposalHandler.SetEVMAddresses",
			"x/bridge/keeper.Keeper.SetBridgeValsetSignature", "x/bridge/keeper.Keeper.SetOracleAttestation", "x/bridge/keeper.Keeper.SetEVMAddressByOperator", "x/bridge/keeper.Keeper.GetEVMAddressByOperator",
			"app.VoteExtHandler.VerifyVoteExtensionHandler", "x/bridge/keeper.Keeper.EVMAddressFromSignatures", "app.VoteExtHandler.CheckAndSignValidatorCheckpoint"),
		Assumptions: []string{
			"json.Unmarshal is deterministic: the lengths of the lists it decodes are functions of the input bytes (jsonlen); nothing else about decoded content is modelled. reflect.DeepEqual on two slices implies equal lengths (and equal integer/string elements)",
			"PreBlocker is entered only for blocks whose proposal ProcessProposal accepted (its precondition is ProcessProposal's postcondition on the same req.Txs[0]); stored validator sets have non-nil members",
			"trusted: TryRecoverAddressWithBothIDs (secp256k1 recovery as an uninterpreted function of signature, hash and recovery id), the staking keeper's GetValidatorByConsAddr (reads), baseapp.ValidateVoteExtensions (havocked result)",
		},
		NotDecided: []string{
			"that an honest proposer's proposal is always accepted, and that any single-element mutation of the injected data is rejected (element-wise equality through JSON round trips, nil versus empty lists) -- only the length alignment of the lists and 'every list was compared' are decided",
			"that a validator's EVM address is registered only once over the life of the chain (decided: at most one registration per commit vote, the setter writes exactly the given operator, and EVMAddressFromSignatures returns an address that BOTH of the validator's two signatures over the two fixed messages recover to -- secp256k1 recovery itself, crypto.SigToPub in TryRecoverAddressWithBothIDs, is an uninterpreted function; its body slices sig[:64], which is now a precondition of the trusted contract that EVMAddressFromSignatures passes on and the proposal handler establishes -- fix 7ead2b5)",
			"ctx.ConsensusParams().Abci is dereferenced without a nil check in ProcessProposal and PreBlocker (consensus parameters without an ABCI section: a chain configuration, not message bytes): that panic obligation is not claimed; the index req.Txs[0] of ProcessProposal is decided since the fix d0bb75f",
			"construction of a vote extension (ExtendVoteHandler: keyring, signing, JSON) is not under contract except for the choice of what to sign for the validator set (CheckAndSignValidatorCheckpoint: only the latest checkpoint, for the own operator, nothing when already signed or not a member; GetOperatorAddress and EncodeAndSignMessage are trusted, read-only); VerifyVoteExtensionHandler is: a decodable extension is accepted only with signatures of at most 65 bytes and no more attestations than requested for the previous height, an undecodable one only from a validator without a registered EVM address, and the handler never returns an error",
		},
	})
}
