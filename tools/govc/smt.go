package main

import (
	"fmt"
	"go/types"
	"hash/fnv"
	"math/big"
	"sync"
	"strings"
)

// ---------- term helpers (terms are S-expression strings) ----------

func app(f string, args ...string) string {
	if len(args) == 0 {
		return f
	}
	return "(" + f + " " + strings.Join(args, " ") + ")"
}

func and(xs ...string) string {
	var ys []string
	for _, x := range xs {
		if x == "true" || x == "" {
			continue
		}
		if x == "false" {
			return "false"
		}
		ys = append(ys, x)
	}
	switch len(ys) {
	case 0:
		return "true"
	case 1:
		return ys[0]
	}
	return app("and", ys...)
}

func or(xs ...string) string {
	var ys []string
	for _, x := range xs {
		if x == "false" || x == "" {
			continue
		}
		if x == "true" {
			return "true"
		}
		ys = append(ys, x)
	}
	switch len(ys) {
	case 0:
		return "false"
	case 1:
		return ys[0]
	}
	return app("or", ys...)
}

func not(x string) string {
	switch x {
	case "true":
		return "false"
	case "false":
		return "true"
	}
	if strings.HasPrefix(x, "(not ") && balanced(x[5:len(x)-1]) {
		return x[5 : len(x)-1]
	}
	return app("not", x)
}

func balanced(s string) bool {
	d := 0
	for i, c := range s {
		if c == '(' {
			d++
		} else if c == ')' {
			d--
			if d < 0 {
				return false
			}
			if d == 0 && i != len(s)-1 {
				return false
			}
		} else if d == 0 && (c == ' ') {
			return false
		}
	}
	return d == 0
}

func implies(a, b string) string {
	if a == "true" {
		return b
	}
	if a == "false" || b == "true" {
		return "true"
	}
	return app("=>", a, b)
}

func ite(c, a, b string) string {
	if c == "true" {
		return a
	}
	if c == "false" {
		return b
	}
	if a == b {
		return a
	}
	return app("ite", c, a, b)
}

func eq(a, b string) string {
	if a == b {
		return "true"
	}
	return app("=", a, b)
}

func intLit(v *big.Int) string {
	if v.Sign() < 0 {
		return "(- " + new(big.Int).Neg(v).String() + ")"
	}
	return v.String()
}

func intLit64(v int64) string { return intLit(big.NewInt(v)) }

// ---------- kinds & sorts ----------

type Kind int

const (
	kInt Kind = iota
	kBool
	kStr
	kReal
	kMathInt // cosmossdk.io/math.Int, math.Uint, *big.Int (value semantics, unbounded)
	kDec     // math.LegacyDec: Int mantissa scaled by 10^18
	kTime    // time.Time: Int nanoseconds
	kPtr
	kSlice
	kArray
	kMap
	kStruct
	kOpaque // foreign struct or anything else kept abstract
	kIface
	kFunc
	kTuple
	kChan
)

func namedPath(t types.Type) string {
	if n, ok := t.(*types.Named); ok {
		o := n.Obj()
		if o.Pkg() != nil {
			return o.Pkg().Path() + "." + o.Name()
		}
		return o.Name()
	}
	if a, ok := t.(*types.Alias); ok {
		return namedPath(types.Unalias(a))
	}
	return ""
}

// foreign struct types that are nevertheless expanded into datatypes
var transparentForeign = map[string]bool{
	"github.com/cosmos/cosmos-sdk/types.Coin":                          true,
	"github.com/cosmos/cosmos-sdk/types.DecCoin":                       true,
	"github.com/cosmos/cosmos-sdk/x/bank/types.Input":                  true,
	"github.com/cosmos/cosmos-sdk/x/bank/types.Output":                 true,
	"github.com/cosmos/cosmos-sdk/x/staking/types.MsgDelegate":         true,
	"github.com/cosmos/cosmos-sdk/x/staking/types.MsgUndelegate":       true,
	"github.com/cosmos/cosmos-sdk/x/staking/types.MsgBeginRedelegate":  true,
	"github.com/cosmos/cosmos-sdk/x/staking/types.MsgCreateValidator":  true,
	"github.com/cosmos/cosmos-sdk/x/staking/types.MsgCancelUnbondingDelegation": true,
	"github.com/cosmos/cosmos-sdk/x/staking/types.Validator":           true,
	"github.com/cosmos/cosmos-sdk/x/staking/types.Delegation":          true,
	"github.com/cosmos/cosmos-sdk/x/staking/types.UnbondingDelegation": true,
	"github.com/cosmos/cosmos-sdk/x/staking/types.UnbondingDelegationEntry": true,
	"github.com/cosmos/cosmos-sdk/x/staking/types.Redelegation":        true,
	"github.com/cosmos/cosmos-sdk/x/staking/types.RedelegationEntry":   true,
	"cosmossdk.io/collections.KeyValue":                                true,
}

func kindOf(t types.Type) Kind {
	t = types.Unalias(t)
	switch namedPath(t) {
	case "cosmossdk.io/math.Int", "cosmossdk.io/math.Uint", "math/big.Int":
		return kMathInt
	case "cosmossdk.io/math.LegacyDec":
		return kDec
	case "time.Time":
		return kTime
	}
	switch u := t.Underlying().(type) {
	case *types.Basic:
		switch {
		case u.Info()&types.IsBoolean != 0:
			return kBool
		case u.Info()&types.IsInteger != 0:
			return kInt
		case u.Info()&types.IsString != 0:
			return kStr
		case u.Info()&types.IsFloat != 0:
			return kReal
		case u.Kind() == types.UnsafePointer:
			return kOpaque
		case u.Kind() == types.UntypedNil:
			return kIface
		}
		return kOpaque
	case *types.Pointer:
		if namedPath(u.Elem()) == "math/big.Int" {
			return kMathInt
		}
		return kPtr
	case *types.Slice:
		return kSlice
	case *types.Array:
		return kArray
	case *types.Map:
		return kMap
	case *types.Struct:
		np := namedPath(t)
		if np == "" || strings.HasPrefix(np, modPath) || transparentForeign[strings.SplitN(np, "[", 2)[0]] {
			return kStruct
		}
		return kOpaque
	case *types.Interface:
		return kIface
	case *types.Signature:
		return kFunc
	case *types.Tuple:
		return kTuple
	case *types.Chan:
		return kChan
	}
	return kOpaque
}

// intRange returns (lo, hi, ok) for machine integer types.
func intRange(t types.Type) (lo, hi *big.Int, ok bool) {
	b, isb := types.Unalias(t).Underlying().(*types.Basic)
	if !isb || b.Info()&types.IsInteger == 0 {
		return nil, nil, false
	}
	bits := 64
	signed := true
	switch b.Kind() {
	case types.Int8:
		bits = 8
	case types.Int16:
		bits = 16
	case types.Int32:
		bits = 32
	case types.Int64, types.Int:
		bits = 64
	case types.Uint8:
		bits, signed = 8, false
	case types.Uint16:
		bits, signed = 16, false
	case types.Uint32:
		bits, signed = 32, false
	case types.Uint64, types.Uint, types.Uintptr:
		bits, signed = 64, false
	case types.UntypedInt, types.UntypedRune:
		return nil, nil, false
	}
	one := big.NewInt(1)
	if signed {
		hi = new(big.Int).Sub(new(big.Int).Lsh(one, uint(bits-1)), one)
		lo = new(big.Int).Neg(new(big.Int).Lsh(one, uint(bits-1)))
	} else {
		lo = big.NewInt(0)
		hi = new(big.Int).Sub(new(big.Int).Lsh(one, uint(bits)), one)
	}
	return lo, hi, true
}

// wrapInt wraps an unbounded Int term into the machine type t (exact Go semantics).
func wrapInt(term string, t types.Type) string {
	lo, hi, ok := intRange(t)
	if !ok {
		return term
	}
	mod := new(big.Int).Add(new(big.Int).Sub(hi, lo), big.NewInt(1))
	if lo.Sign() == 0 {
		return app("mod", term, mod.String())
	}
	// signed
	return fmt.Sprintf("(let ((wm (mod %s %s))) (ite (> wm %s) (- wm %s) wm))", term, mod.String(), hi.String(), mod.String())
}

func inRange(term string, t types.Type) string {
	lo, hi, ok := intRange(t)
	if !ok {
		return "true"
	}
	return and(app("<=", intLit(lo), term), app("<=", term, intLit(hi)))
}

// ---------- VC context ----------

type structSort struct {
	name   string
	fields []string // selector names
	ftypes []types.Type
	fnames []string
	opaque bool
}

type VC struct {
	prog     *Prog
	lines    []string // const declarations and assertions, in order
	sortDecl []string // sort / datatype / UF declarations (emitted before lines)
	declared map[string]bool
	sorts    map[string]string      // types.Type string key -> sort name
	structs  map[string]*structSort // sort name -> info
	n        int
	strlits  map[string]string
	strorder []string
	obls     []*Obligation
	notes    map[string]bool // unmodelled calls etc.
	assumptionsUsed map[string]bool
	dropQuant bool
	mu        sync.Mutex
	defs      map[string]string // defined constant -> its defining term
	named     map[string]string
	lineTag   []int             // block tag of each line (-1 = global)
	curTag    int
	inline    bool // pure-term mode: no constants, assumptions or obligations are emitted (used to lift closures into quantifiers)
}

func newVC(p *Prog) *VC {
	return &VC{curTag: -1, prog: p, declared: map[string]bool{}, sorts: map[string]string{}, structs: map[string]*structSort{}, strlits: map[string]string{}, notes: map[string]bool{}, assumptionsUsed: map[string]bool{}}
}

func mangle(s string) string {
	var b strings.Builder
	for _, c := range s {
		switch {
		case c >= 'a' && c <= 'z', c >= 'A' && c <= 'Z', c >= '0' && c <= '9':
			b.WriteRune(c)
		default:
			b.WriteByte('_')
		}
	}
	r := b.String()
	if len(r) > 80 {
		h := fnv.New32a()
		h.Write([]byte(s))
		r = r[:60] + fmt.Sprintf("_%08x", h.Sum32())
	}
	return r
}

func typeKey(t types.Type) string {
	return types.TypeString(t, func(p *types.Package) string { return relPkg(p.Path()) })
}

func (vc *VC) declSort(line string) {
	if !vc.declared[line] {
		vc.declared[line] = true
		vc.sortDecl = append(vc.sortDecl, line)
	}
}

func (vc *VC) declFun(name string, args []string, ret string) {
	key := "fun:" + name
	if vc.declared[key] {
		return
	}
	vc.declared[key] = true
	vc.sortDecl = append(vc.sortDecl, fmt.Sprintf("(declare-fun %s (%s) %s)", name, strings.Join(args, " "), ret))
}

// sortOf maps a Go type to an SMT sort, declaring datatypes on demand.
func (vc *VC) sortOf(t types.Type) string {
	t = types.Unalias(t)
	switch kindOf(t) {
	case kInt, kMathInt, kDec, kTime, kPtr, kMap:
		return "Int"
	case kBool:
		return "Bool"
	case kStr:
		return "Str"
	case kReal:
		return "Real"
	case kSlice:
		return "Slice"
	case kIface:
		return "Iface"
	case kFunc:
		return "Fn"
	case kChan:
		return "Int"
	case kArray:
		a := t.Underlying().(*types.Array)
		return "(Array Int " + vc.sortOf(a.Elem()) + ")"
	case kTuple:
		return "GoTuple"
	}
	key := typeKey(t)
	if s, ok := vc.sorts[key]; ok {
		return s
	}
	if name, _ := pairArgs(t); name != "" {
		s := vc.keySort(t)
		vc.sorts[key] = s
		vc.structs[s] = &structSort{name: s, opaque: true}
		return s
	}
	if kindOf(t) == kOpaque {
		name := "O_" + mangle(key)
		vc.sorts[key] = name
		vc.declSort(fmt.Sprintf("(declare-sort %s 0)", name))
		ss := &structSort{name: name, opaque: true}
		if st, ok := t.Underlying().(*types.Struct); ok {
			for i := 0; i < st.NumFields(); i++ {
				ss.fnames = append(ss.fnames, st.Field(i).Name())
				ss.ftypes = append(ss.ftypes, st.Field(i).Type())
				ss.fields = append(ss.fields, fmt.Sprintf("%s_%s", name, st.Field(i).Name()))
			}
		}
		vc.structs[name] = ss
		return name
	}
	// struct
	st := t.Underlying().(*types.Struct)
	name := "S_" + mangle(key)
	vc.sorts[key] = name
	ss := &structSort{name: name}
	var fl []string
	for i := 0; i < st.NumFields(); i++ {
		f := st.Field(i)
		sel := fmt.Sprintf("%s_%s", name, f.Name())
		if f.Name() == "_" {
			sel = fmt.Sprintf("%s_blank%d", name, i)
		}
		fs := vc.sortOf(f.Type())
		ss.fields = append(ss.fields, sel)
		ss.ftypes = append(ss.ftypes, f.Type())
		ss.fnames = append(ss.fnames, f.Name())
		fl = append(fl, fmt.Sprintf("(%s %s)", sel, fs))
	}
	vc.structs[name] = ss
	if len(fl) == 0 {
		vc.declSort(fmt.Sprintf("(declare-datatypes ((%s 0)) (((mk_%s))))", name, name))
	} else {
		vc.declSort(fmt.Sprintf("(declare-datatypes ((%s 0)) (((mk_%s %s))))", name, name, strings.Join(fl, " ")))
	}
	return name
}

func (vc *VC) structInfo(t types.Type) *structSort {
	s := vc.sortOf(t)
	return vc.structs[s]
}

// fresh declares a fresh constant of the given sort.
func (vc *VC) fresh(hint, sort string) string {
	vc.n++
	name := fmt.Sprintf("%s!%d", mangle(hint), vc.n)
	vc.addLine(fmt.Sprintf("(declare-const %s %s)", name, sort))
	return name
}

func (vc *VC) assume(f string) {
	if f == "true" || vc.inline {
		return
	}
	vc.addLine("(assert " + f + ")")
}

func (vc *VC) addLine(l string) {
	vc.lines = append(vc.lines, l)
	vc.lineTag = append(vc.lineTag, vc.curTag)
}

// prependGlobal inserts a global line at position pos.
func (vc *VC) insertGlobal(pos int, l string) {
	vc.lines = append(vc.lines[:pos], append([]string{l}, vc.lines[pos:]...)...)
	vc.lineTag = append(vc.lineTag[:pos], append([]int{-1}, vc.lineTag[pos:]...)...)
}

// define introduces a named constant equal to term (keeps terms small).
func (vc *VC) define(hint, sort, term string) string {
	if vc.inline {
		return term
	}
	if len(term) < 48 && !strings.Contains(term, "(let ") {
		return term
	}
	c := vc.fresh(hint, sort)
	vc.assume(eq(c, term))
	if vc.defs == nil {
		vc.defs = map[string]string{}
	}
	vc.defs[c] = term
	return c
}

func (vc *VC) strLit(s string) string {
	if c, ok := vc.strlits[s]; ok {
		return c
	}
	c := fmt.Sprintf("strlit_%d", len(vc.strlits))
	vc.strlits[s] = c
	vc.strorder = append(vc.strorder, s)
	return c
}

// heap names
func (vc *VC) heapName(elem types.Type) (name, sort string) {
	es := vc.sortOf(elem)
	return "H_" + mangle(es), "(Array Int " + es + ")"
}
func (vc *VC) arrHeapName(elem types.Type) (name, sort string) {
	es := vc.sortOf(elem)
	return "A_" + mangle(es), "(Array Int (Array Int " + es + "))"
}
func (vc *VC) mapHeapName(k, v types.Type) (valname, valsort, domname, domsort string) {
	ks, vs := vc.sortOf(k), vc.sortOf(v)
	m := mangle(ks) + "_" + mangle(vs)
	return "MV_" + m, "(Array Int (Array " + ks + " " + vs + "))", "MD_" + m, "(Array Int (Array " + ks + " Bool))"
}

const prelude = `(set-option :produce-models true)
(set-logic ALL)
(declare-sort Str 0)
(declare-sort Iface 0)
(declare-sort Fn 0)
(declare-sort GoTuple 0)
(declare-datatypes ((Slice 0)) (((mk_slice (sptr Int) (soff Int) (slen Int)))))
(declare-fun idx (Int Int) Int)
(assert (forall ((o Int) (j Int)) (! (= (idx o j) (+ o j)) :pattern ((idx o j)))))
(declare-fun str_len (Str) Int)
(declare-fun str_cat (Str Str) Str)
(declare-fun str_lt (Str Str) Bool)
(assert (forall ((a Str) (b Str)) (! (and (not (and (str_lt a b) (str_lt b a))) (or (str_lt a b) (str_lt b a) (= a b))) :pattern ((str_lt a b)))))
(assert (forall ((a Str) (b Str) (c Str)) (! (=> (and (str_lt a b) (str_lt b c)) (str_lt a c)) :pattern ((str_lt a b) (str_lt b c)))))
(declare-const iface_nil Iface)
(declare-fun typeof (Iface) Int)
(assert (= (typeof iface_nil) 0))
(define-fun tdiv ((a Int) (b Int)) Int (ite (>= a 0) (ite (> b 0) (div a b) (- (div a (- b)))) (ite (> b 0) (- (div (- a) b)) (div (- a) (- b)))))
(define-fun trem ((a Int) (b Int)) Int (- a (* b (tdiv a b))))
(define-fun iabs ((a Int)) Int (ite (>= a 0) a (- a)))
(define-fun imin ((a Int) (b Int)) Int (ite (<= a b) a b))
(define-fun imax ((a Int) (b Int)) Int (ite (>= a b) a b))
(define-fun round_he ((x Int)) Int (let ((a (iabs x))) (let ((q (div a 1000000000000000000)) (r (mod a 1000000000000000000))) (let ((u (ite (or (> r 500000000000000000) (and (= r 500000000000000000) (= (mod q 2) 1))) (+ q 1) q))) (ite (< x 0) (- u) u)))))
(define-fun is_round_he ((x Int) (q Int)) Bool (let ((d (- (* 1000000000000000000 q) x))) (and (<= (- 500000000000000000) d) (<= d 500000000000000000) (=> (or (= d 500000000000000000) (= d (- 500000000000000000))) (= (mod q 2) 0)))))
(define-fun is_tdiv ((a Int) (b Int) (x Int)) Bool (ite (> b 0) (ite (>= a 0) (and (<= (* b x) a) (< a (* b (+ x 1)))) (and (< (* b (- x 1)) a) (<= a (* b x)))) (ite (>= a 0) (and (<= (* (- b) (- x)) a) (< a (* (- b) (+ (- x) 1)))) (and (<= (* (- b) x) (- a)) (< (- a) (* (- b) (+ x 1)))))))
(declare-fun decmul (Int Int) Int)
(declare-fun decquo_x (Int Int) Int)
(declare-fun decquo (Int Int) Int)
(declare-fun dectrunc (Int) Int)
(define-fun dec_mul ((a Int) (b Int)) Int (round_he (* a b)))
(define-fun dec_quo ((a Int) (b Int)) Int (round_he (tdiv (* a 1000000000000000000000000000000000000) b)))
(define-fun dec_quo_trunc ((a Int) (b Int)) Int (tdiv (tdiv (* a 1000000000000000000000000000000000000) b) 1000000000000000000))
(define-fun dec_trunc ((a Int)) Int (tdiv a 1000000000000000000))
(define-fun dec_of_int ((a Int)) Int (* a 1000000000000000000))
`

// render produces the full SMT-LIB text for an obligation.
func (vc *VC) renderNoQuant(prefix int, goal string, extra []string, tags map[int]bool) string {
	vc.mu.Lock()
	defer vc.mu.Unlock()
	vc.dropQuant = true
	defer func() { vc.dropQuant = false }()
	return vc.renderL(prefix, goal, extra, tags)
}

func (vc *VC) render(prefix int, goal string, extra []string, tags map[int]bool) string {
	vc.mu.Lock()
	defer vc.mu.Unlock()
	return vc.renderL(prefix, goal, extra, tags)
}

func (vc *VC) renderL(prefix int, goal string, extra []string, tags map[int]bool) string {
	var b strings.Builder
	b.WriteString(prelude)
	if len(vc.strorder) > 0 {
		for _, s := range vc.strorder {
			c := vc.strlits[s]
			fmt.Fprintf(&b, "(declare-const %s Str)\n(assert (= (str_len %s) %d))\n", c, c, len(s))
		}
		if len(vc.strorder) > 1 {
			b.WriteString("(assert (distinct")
			for _, s := range vc.strorder {
				b.WriteString(" " + vc.strlits[s])
			}
			b.WriteString("))\n")
		}
	}
	for _, l := range vc.sortDecl {
		if vc.dropQuant && strings.HasPrefix(l, "(assert (forall") {
			continue
		}
		b.WriteString(l)
		b.WriteByte('\n')
	}
	for i, l := range vc.lines[:prefix] {
		if tags != nil && vc.lineTag[i] >= 0 && !tags[vc.lineTag[i]] && !strings.HasPrefix(l, "(declare-") {
			continue // assumptions of blocks that are not CFG ancestors; declarations stay (lemmas may mention them)
		}
		if vc.dropQuant && (strings.Contains(l, "(forall ") || strings.Contains(l, "(exists ")) {
			continue
		}
		b.WriteString(l)
		b.WriteByte('\n')
	}
	for _, l := range extra {
		b.WriteString(l)
		b.WriteByte('\n')
	}
	b.WriteString("(assert (not " + goal + "))\n(check-sat)\n")
	return b.String()
}

// keySort: the SMT sort of store keys of Go type t (byte strings by content, pairs structurally).
func (vc *VC) keySort(t types.Type) string {
	if isByteSlice(t) {
		return "BV"
	}
	if name, targs := pairArgs(t); name != "" {
		var ks []string
		for i := 0; i < targs.Len(); i++ {
			ks = append(ks, vc.keySort(targs.At(i)))
		}
		sn := "K" + name + "_" + mangle(strings.Join(ks, "_"))
		var fl []string
		for i, k := range ks {
			fl = append(fl, fmt.Sprintf("(%s_%d %s)", sn, i, k))
		}
		vc.declSort(fmt.Sprintf("(declare-datatypes ((%s 0)) (((mk_%s %s))))", sn, sn, strings.Join(fl, " ")))
		return sn
	}
	return vc.sortOf(t)
}

// defineAlways names a term with a constant (reusing an earlier name for the same term under the same tag).
func (vc *VC) defineAlways(hint, sort, term string) string {
	if vc.inline {
		return term
	}
	if vc.named == nil {
		vc.named = map[string]string{}
	}
	key := fmt.Sprintf("%d|%s", vc.curTag, term)
	if c, ok := vc.named[key]; ok {
		return c
	}
	c := vc.fresh(hint, sort)
	vc.assume(eq(c, term))
	if vc.defs == nil {
		vc.defs = map[string]string{}
	}
	vc.defs[c] = term
	vc.named[key] = c
	return c
}
