package main

// Solidity side of C15: the Go contracts of the bridge encoders (x/bridge/keeper/zz_contracts_verif.go) state
// which fields are packed, in which order and with which Solidity types. Those lists were taken from the EVM
// contracts in /repo/evm/contracts; this sweep re-reads the .sol sources on every run and checks that each
// encode/decode site still has exactly the text the Go contracts were written against (comments and whitespace
// removed). A change on the Solidity side (reordered fields, changed type, changed domain separator) fails the
// pin of that site; the Go side is held to the same list by the ensures clauses named in the pin.

import (
	"fmt"
	"os"
	"path/filepath"
	"regexp"
	"strings"
)

type solPin struct {
	name, file, text, goClause string
}

var solPins = []solPin{
	{"attestation_digest_fields", "evm/contracts/bridge/BlobstreamO.sol",
		"bytes32_dataDigest=keccak256(abi.encode(NEW_REPORT_ATTESTATION_DOMAIN_SEPARATOR,_attestData.queryId,_attestData.report.value,_attestData.report.timestamp,_attestData.report.aggregatePower,_attestData.report.previousTimestamp,_attestData.report.nextTimestamp,lastValidatorSetCheckpoint,_attestData.attestationTimestamp));",
		"EncodeOracleAttestationData#ensures.digest_is_keccak_of_the_domain_separated_report_fields_in_contract_order"},
	{"attestation_struct_types", "evm/contracts/bridge/BlobstreamO.sol",
		"structOracleAttestationData{bytes32queryId;ReportDatareport;uint256attestationTimestamp;}structReportData{bytesvalue;uint256timestamp;uint256aggregatePower;uint256previousTimestamp;uint256nextTimestamp;}",
		"EncodeOracleAttestationData (type list bytes32,bytes32,bytes,uint256 x4,bytes32,uint256)"},
	{"checkpoint_type", "evm/contracts/bridge/BlobstreamO.sol", "bytes32publiclastValidatorSetCheckpoint;", "EncodeOracleAttestationData (checkpoint is bytes32)"},
	{"checkpoint_digest_fields", "evm/contracts/bridge/BlobstreamO.sol",
		"function_domainSeparateValidatorSetHash(uint256_powerThreshold,uint256_validatorTimestamp,bytes32_validatorSetHash)internalpurereturns(bytes32){returnkeccak256(abi.encode(VALIDATOR_SET_HASH_DOMAIN_SEPARATOR,_powerThreshold,_validatorTimestamp,_validatorSetHash));}",
		"CalculateValidatorSetCheckpoint#ensures (domain separated checkpoint)"},
	{"signature_digest_convention", "evm/contracts/bridge/BlobstreamO.sol", "_digest=sha256(abi.encodePacked(_digest));return_signer==ecrecover(_digest,_sig.v,_sig.r,_sig.s);", "listed as not decided (signing side)"},
	{"report_domain_separator", "evm/contracts/bridge/Constants.sol",
		"bytes32constantNEW_REPORT_ATTESTATION_DOMAIN_SEPARATOR=0x74656c6c6f7243757272656e744174746573746174696f6e0000000000000000;", "EncodeOracleAttestationData (hexdec constant)"},
	{"checkpoint_domain_separator", "evm/contracts/bridge/Constants.sol",
		"bytes32constantVALIDATOR_SET_HASH_DOMAIN_SEPARATOR=0x636865636b706f696e7400000000000000000000000000000000000000000000;", "CalculateValidatorSetCheckpoint (strbytes(\"checkpoint\") padded to 32)"},
	{"withdrawal_query_id", "evm/contracts/token-bridge/TokenBridge.sol",
		"require(_attestData.queryId==keccak256(abi.encode(\"TRBBridge\",abi.encode(false,_depositId))),", "GetWithdrawalQueryId#ensures"},
	{"withdrawal_id_type", "evm/contracts/token-bridge/TokenBridge.sol", "Signature[]calldata_sigs,uint256_depositId)external{require(bridgeState!=BridgeState.PAUSED", "GetWithdrawalQueryId (uint256 id)"},
	{"deposit_details_fields", "evm/contracts/token-bridge/TokenBridge.sol",
		"structDepositDetails{addresssender;stringrecipient;uint256amount;uint256tip;uint256blockHeight;}",
		"DecodeDepositReportValue#ensures (address,string,uint256,uint256: sender, recipient, amount, tip)"},
	{"deposit_recorded_as_given", "evm/contracts/token-bridge/TokenBridge.sol",
		"deposits[depositId]=DepositDetails(msg.sender,_layerRecipient,_amount,_tip,block.number);", "DecodeDepositReportValue#ensures (field order)"},
	{"deposit_query_id_type", "evm/contracts/token-bridge/TokenBridge.sol", "uint256publicdepositId;", "GetDepositQueryId (uint256 id)"},
	{"withdrawal_report_value", "evm/contracts/token-bridge/TokenBridge.sol",
		"(address_recipient,stringmemory_layerSender,uint256_amountLoya,)=abi.decode(_attestData.report.value,(address,string,uint256,uint256));", "GetWithdrawalReportValue#ensures"},
}

var reSolComment = regexp.MustCompile(`(?s)/\*.*?\*/|//[^\n]*`)

func solNormalize(src string) string {
	src = reSolComment.ReplaceAllString(src, "")
	return strings.Join(strings.Fields(src), "")
}

func init() {
	sweeps["sol_encodings"] = func(p *Prog) *SweepResult {
		sr := &SweepResult{Name: "sol_encodings"}
		cache := map[string]string{}
		for _, pin := range solPins {
			src, ok := cache[pin.file]
			if !ok {
				b, err := os.ReadFile(filepath.Join(repoDir, pin.file))
				if err == nil {
					src = solNormalize(string(b))
				}
				cache[pin.file] = src
			}
			found := src != "" && strings.Contains(src, pin.text)
			sr.Obls = append(sr.Obls, structObl(fmt.Sprintf("sweep.sol_encodings#pin(%s)", pin.name), "frame.sweep", found,
				fmt.Sprintf("%s no longer contains the encode/decode site the Go contract %s was written against: %s", pin.file, pin.goClause, pin.text)))
			st := "as pinned"
			if !found {
				st = "CHANGED"
			}
			sr.Sites = append(sr.Sites, pin.file+": "+pin.name+"  ["+st+"; Go side: "+pin.goClause+"]")
		}
		sr.Explanation = fmt.Sprintf("%d encode/decode sites of the EVM contracts compared (comments and whitespace removed) with the field lists the Go encoder contracts state", len(solPins))
		return sr
	}
}
