package main

import "strings"

// minimal S-expression utilities for trigger inference

type sx struct {
	atom string
	list []*sx
}

func parseSx(s string) *sx {
	pos := 0
	var parse func() *sx
	parse = func() *sx {
		for pos < len(s) && s[pos] == ' ' {
			pos++
		}
		if pos >= len(s) {
			return nil
		}
		if s[pos] == '(' {
			pos++
			n := &sx{}
			for {
				for pos < len(s) && s[pos] == ' ' {
					pos++
				}
				if pos >= len(s) {
					return n
				}
				if s[pos] == ')' {
					pos++
					return n
				}
				c := parse()
				if c == nil {
					return n
				}
				n.list = append(n.list, c)
			}
		}
		st := pos
		for pos < len(s) && s[pos] != ' ' && s[pos] != '(' && s[pos] != ')' {
			pos++
		}
		return &sx{atom: s[st:pos]}
	}
	return parse()
}

func (x *sx) String() string {
	if x.list == nil && x.atom != "" {
		return x.atom
	}
	var ps []string
	for _, c := range x.list {
		ps = append(ps, c.String())
	}
	return "(" + strings.Join(ps, " ") + ")"
}

func (x *sx) contains(v string) bool {
	if x.list == nil {
		return x.atom == v
	}
	for _, c := range x.list {
		if c.contains(v) {
			return true
		}
	}
	return false
}

var nonTriggerHeads = map[string]bool{
	"+": true, "-": true, "*": true, "div": true, "mod": true, "tdiv": true, "trem": true, "<": true, "<=": true, ">": true, ">=": true,
	"=": true, "and": true, "or": true, "not": true, "=>": true, "ite": true, "let": true, "forall": true, "exists": true, "!": true,
	"imin": true, "imax": true, "iabs": true, "distinct": true, "dec_mul": true, "dec_quo": true, "round_he": true, "dec_trunc": true, "dec_of_int": true,
}

// inferPatterns returns the minimal uninterpreted-function/select subterms of body that contain the bound variable.
func inferPatterns(body, bv string) []string {
	root := parseSx(body)
	if root == nil {
		return nil
	}
	seen := map[string]bool{}
	var out []string
	var walk func(x *sx, underBinder bool) bool // returns true if a pattern was found inside x
	walk = func(x *sx, underBinder bool) bool {
		if x.list == nil || !x.contains(bv) {
			return false
		}
		head := ""
		if len(x.list) > 0 && x.list[0].list == nil {
			head = x.list[0].atom
		}
		if head == "forall" || head == "exists" || head == "let" {
			// terms under another binder may mention that binder's variables: do not use them
			return false
		}
		found := false
		for _, c := range x.list {
			if walk(c, underBinder) {
				found = true
			}
		}
		if found {
			return true
		}
		if head == "" || nonTriggerHeads[head] {
			return false
		}
		if hasNonTrigger(x) {
			return false
		}
		s := x.String()
		if !seen[s] {
			seen[s] = true
			out = append(out, s)
		}
		return true
	}
	walk(root, false)
	if len(out) > 4 {
		out = out[:4]
	}
	return out
}

// hasNonTrigger: the term contains an interpreted/boolean operator below its head (not allowed in patterns).
func hasNonTrigger(x *sx) bool {
	for i, c := range x.list {
		if c.list == nil {
			if i == 0 {
				continue
			}
			continue
		}
		if len(c.list) > 0 && c.list[0].list == nil && nonTriggerHeads[c.list[0].atom] {
			// arithmetic on ground sub-terms is tolerated only if it is "(- n)" literal
			if c.list[0].atom == "-" && len(c.list) == 2 && c.list[1].list == nil {
				continue
			}
			return true
		}
		if hasNonTrigger(c) {
			return true
		}
	}
	return false
}
