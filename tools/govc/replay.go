package main

// Replay of solver counterexamples against the real code (go test -overlay; nothing is written into /repo).
//
// Scope: functions without a keeper receiver whose parameters and results are scalars -- machine integers, bool,
// math.Int, LegacyDec, time.Time, sdk.Coin, error -- or slices of machine integers. For a failing obligation of
// such a function the VC is solved once more without its quantified assertions, the values of the parameters and
// of the (symbolically computed) results are read from the model, a test calling the real function with those
// parameters is run through `go test -overlay`, and the counterexample counts as reproduced when the real results
// equal the results in the model (for panic obligations: when the real call panics). The model then is an
// execution of the real code that violates the clause. Anything else: not reproduced.

import (
	"encoding/json"
	"fmt"
	"go/types"
	"os"
	"os/exec"
	"path/filepath"
	"regexp"
	"strings"
	"time"

	"golang.org/x/tools/go/ssa"
)

type ReplayResult struct {
	Reproduced bool              `json:"reproduced"`
	Inputs     map[string]string `json:"inputs,omitempty"`
	ModelOut   []string          `json:"model_results,omitempty"`
	RealOut    []string          `json:"real_results,omitempty"`
	Test       string            `json:"test,omitempty"`
	Output     string            `json:"output,omitempty"`
	Note       string            `json:"note,omitempty"`
}

type rpKind int

const (
	rpNo rpKind = iota
	rpInt
	rpBool
	rpMathInt
	rpDec
	rpTime
	rpErr
	rpCoin
	rpIntSlice
)

func replayKind(t types.Type) rpKind {
	switch kindOf(t) {
	case kInt:
		return rpInt
	case kBool:
		return rpBool
	case kMathInt:
		if strings.HasSuffix(namedPath(t), "math/big.Int") {
			return rpNo
		}
		return rpMathInt
	case kDec:
		return rpDec
	case kTime:
		return rpTime
	case kIface:
		if types.Identical(types.Unalias(t), types.Universe.Lookup("error").Type()) {
			return rpErr
		}
	case kStruct:
		if strings.HasSuffix(namedPath(t), "cosmos-sdk/types.Coin") {
			return rpCoin
		}
	case kSlice:
		if kindOf(types.Unalias(t).Underlying().(*types.Slice).Elem()) == kInt {
			return rpIntSlice
		}
	}
	return rpNo
}

var reValue = regexp.MustCompile(`^\(\((.*)\)\)$`)

// smtInt parses a z3 integer value ("5", "(- 5)").
func smtInt(s string) (string, bool) {
	s = strings.TrimSpace(s)
	if strings.HasPrefix(s, "(- ") && strings.HasSuffix(s, ")") {
		return "-" + strings.TrimSpace(s[3:len(s)-1]), true
	}
	for _, c := range s {
		if c < '0' || c > '9' {
			return "", false
		}
	}
	return s, s != ""
}

func tryReplay(p *Prog, o *Obligation, dir string) *ReplayResult {
	fn := p.Funcs[o.Func]
	if fn == nil || o.vc == nil {
		return &ReplayResult{Note: "function not available for replay"}
	}
	if recv := fn.Signature.Recv(); recv != nil {
		np := namedPath(recv.Type())
		if !strings.Contains(np, "/types.") {
			return &ReplayResult{Note: "no replay harness for methods of stateful receivers (keepers, handlers); the solver output is in solver_output"}
		}
	}
	fpkg := fn.Pkg
	if fpkg == nil && fn.Origin() != nil {
		fpkg = fn.Origin().Pkg
	}
	if fpkg == nil {
		return &ReplayResult{Note: "function without package"}
	}
	// which parameters / results can be transported
	type slot struct {
		name string
		v    Val
		k    rpKind
		t    types.Type
	}
	var ins, outs []slot
	for i, prm := range fn.Params {
		if i >= len(o.inVals) {
			return &ReplayResult{Note: "parameters not recorded"}
		}
		if fn.Signature.Recv() != nil && i == 0 {
			continue // zero-value receiver
		}
		k := replayKind(prm.Type())
		if k == rpNo || k == rpErr {
			if strings.HasSuffix(namedPath(prm.Type()), "context.Context") || strings.HasSuffix(namedPath(prm.Type()), "types.Context") {
				return &ReplayResult{Note: "no replay harness for functions taking a context"}
			}
			return &ReplayResult{Note: "no replay harness for parameter type " + prm.Type().String()}
		}
		ins = append(ins, slot{prm.Name(), o.inVals[i], k, prm.Type()})
	}
	rts := resultTypes(fn.Signature)
	isPanic := strings.HasPrefix(o.Kind, "panic")
	if !isPanic {
		if len(o.outVals) != len(rts) {
			return &ReplayResult{Note: "results not recorded"}
		}
		for i, t := range rts {
			k := replayKind(t)
			if k == rpNo || k == rpIntSlice {
				return &ReplayResult{Note: "no replay harness for result type " + t.String()}
			}
			outs = append(outs, slot{fmt.Sprintf("r%d", i), o.outVals[i], k, t})
		}
	}
	// model: the VC without quantified assertions (a model of it may be spurious; the replay decides)
	var queries []string
	add := func(t string) int { queries = append(queries, t); return len(queries) - 1 }
	type q struct{ idx []int }
	inQ := map[int]q{}
	const maxLen = 8
	for i, s := range ins {
		switch s.k {
		case rpIntSlice:
			sl := types.Unalias(s.t).Underlying().(*types.Slice)
			hn, _ := o.vc.arrHeapName(sl.Elem())
			idx := []int{add(app("slen", s.v.S))}
			for j := 0; j < maxLen; j++ {
				idx = append(idx, add(app("select", app("select", hn+"!0", app("sptr", s.v.S)), app("idx", app("soff", s.v.S), fmt.Sprint(j)))))
			}
			inQ[i] = q{idx}
		case rpCoin:
			return &ReplayResult{Note: "no replay harness for coin parameters"}
		default:
			inQ[i] = q{[]int{add(s.v.S)}}
		}
	}
	outQ := map[int]q{}
	for i, s := range outs {
		switch s.k {
		case rpErr:
			outQ[i] = q{[]int{add(eq(s.v.S, "iface_nil"))}}
		case rpCoin:
			ss := o.vc.structInfo(s.t)
			outQ[i] = q{[]int{add(app(fieldSel(ss, "Amount"), s.v.S))}}
		default:
			outQ[i] = q{[]int{add(s.v.S)}}
		}
	}
	if len(queries) == 0 {
		return &ReplayResult{Note: "nothing to replay"}
	}
	txt := o.vc.renderNoQuant(o.prefix, o.goal, o.extra, o.tags)
	txt = strings.Replace(txt, "(check-sat)\n", "", 1)
	var gv strings.Builder
	gv.WriteString("(check-sat)\n")
	for _, qq := range queries {
		fmt.Fprintf(&gv, "(get-value (%s))\n", qq)
	}
	file := filepath.Join(dir, "replay_"+mangle(o.Name)+".smt2")
	os.WriteFile(file, []byte(txt+gv.String()), 0o644)
	if os.Getenv("GOVC_KEEP") == "" {
		defer os.Remove(file)
	}
	out, _ := exec.Command("z3-new", "-T:20", file).CombinedOutput()
	lines := strings.Split(strings.TrimSpace(string(out)), "\n")
	if len(lines) == 0 || strings.TrimSpace(lines[0]) != "sat" {
		return &ReplayResult{Note: "the solver gives no model for this obligation (" + strings.TrimSpace(lines[0]) + ")"}
	}
	// get-value answers may span lines: re-join and split on top-level "((" starts
	joined := strings.Join(lines[1:], " ")
	var vals []string
	depth, start := 0, -1
	for i, c := range joined {
		switch c {
		case '(':
			if depth == 0 {
				start = i
			}
			depth++
		case ')':
			depth--
			if depth == 0 && start >= 0 {
				vals = append(vals, joined[start:i+1])
				start = -1
			}
		}
	}
	if len(vals) != len(queries) {
		return &ReplayResult{Note: "could not read the model"}
	}
	valueOf := func(i int) string {
		// "((term value))": the value is the last top-level element
		s := strings.TrimSpace(vals[i])
		s = strings.TrimSuffix(strings.TrimPrefix(s, "(("), "))")
		d := 0
		for j := len(s) - 1; j >= 0; j-- {
			switch s[j] {
			case ')':
				d++
			case '(':
				d--
			case ' ':
				if d == 0 {
					return strings.TrimSpace(s[j+1:])
				}
			}
			if d == 0 && s[j] == '(' {
				return strings.TrimSpace(s[j:])
			}
		}
		return s
	}
	// Go literals for the inputs
	res := &ReplayResult{Inputs: map[string]string{}}
	var argExprs []string
	qual := func(t types.Type) string {
		return types.TypeString(t, func(pk *types.Package) string {
			if pk == fpkg.Pkg {
				return ""
			}
			return pk.Name()
		})
	}
	imports := map[string]string{}
	for i, s := range ins {
		switch s.k {
		case rpInt:
			v, ok := smtInt(valueOf(inQ[i].idx[0]))
			if !ok {
				return &ReplayResult{Note: "non-numeral model value"}
			}
			res.Inputs[s.name] = v
			argExprs = append(argExprs, fmt.Sprintf("%s(%s)", qual(s.t), v))
		case rpBool:
			v := valueOf(inQ[i].idx[0])
			res.Inputs[s.name] = v
			argExprs = append(argExprs, v)
		case rpMathInt:
			v, ok := smtInt(valueOf(inQ[i].idx[0]))
			if !ok {
				return &ReplayResult{Note: "non-numeral model value"}
			}
			res.Inputs[s.name] = v
			imports["cosmossdk.io/math"] = "sdkmath"
			argExprs = append(argExprs, fmt.Sprintf("mustInt(%q)", v))
		case rpDec:
			v, ok := smtInt(valueOf(inQ[i].idx[0]))
			if !ok {
				return &ReplayResult{Note: "non-numeral model value"}
			}
			res.Inputs[s.name] = v + "e-18"
			imports["cosmossdk.io/math"] = "sdkmath"
			argExprs = append(argExprs, fmt.Sprintf("mustDec(%q)", v))
		case rpTime:
			v, ok := smtInt(valueOf(inQ[i].idx[0]))
			if !ok {
				return &ReplayResult{Note: "non-numeral model value"}
			}
			res.Inputs[s.name] = v + "ns"
			imports["time"] = "time"
			if "(- "+strings.TrimPrefix(v, "-")+")" == timeZeroNs {
				argExprs = append(argExprs, "time.Time{}")
			} else {
				argExprs = append(argExprs, fmt.Sprintf("time.Unix(0, %s).UTC()", v))
			}
		case rpIntSlice:
			n, ok := smtInt(valueOf(inQ[i].idx[0]))
			var ln int
			fmt.Sscanf(n, "%d", &ln)
			if !ok || ln < 0 || ln > maxLen {
				return &ReplayResult{Note: "model slice too long for the replay harness"}
			}
			sl := types.Unalias(s.t).Underlying().(*types.Slice)
			var els []string
			for j := 0; j < ln; j++ {
				v, ok := smtInt(valueOf(inQ[i].idx[1+j]))
				if !ok {
					return &ReplayResult{Note: "non-numeral model value"}
				}
				els = append(els, v)
			}
			res.Inputs[s.name] = "[" + strings.Join(els, " ") + "]"
			argExprs = append(argExprs, fmt.Sprintf("[]%s{%s}", qual(sl.Elem()), strings.Join(els, ", ")))
		}
	}
	for i, s := range outs {
		v := valueOf(outQ[i].idx[0])
		if s.k != rpErr && s.k != rpBool {
			if n, ok := smtInt(v); ok {
				v = n
			}
		}
		if s.k == rpErr {
			if v == "true" {
				v = "nil"
			} else {
				v = "error"
			}
		}
		res.ModelOut = append(res.ModelOut, v)
	}
	// the test
	call := fn.Name() + "(" + strings.Join(argExprs, ", ") + ")"
	if recv := fn.Signature.Recv(); recv != nil {
		call = "(" + qual(recv.Type()) + "{})." + call
		if _, ok := recv.Type().(*types.Pointer); ok {
			call = "(&" + strings.TrimPrefix(qual(recv.Type()), "*") + "{})." + fn.Name() + "(" + strings.Join(argExprs, ", ") + ")"
		}
	}
	if fn.TypeParams().Len() > 0 || len(fn.TypeArgs()) > 0 {
		var ta []string
		for _, t := range fn.TypeArgs() {
			ta = append(ta, qual(t))
		}
		call = fn.Origin().Name() + "[" + strings.Join(ta, ", ") + "](" + strings.Join(argExprs, ", ") + ")"
	}
	var rnames, prints []string
	for i, s := range outs {
		rn := fmt.Sprintf("r%d", i)
		rnames = append(rnames, rn)
		switch s.k {
		case rpInt:
			prints = append(prints, fmt.Sprintf(`fmt.Printf("REPLAY-OUT %%d\n", %s)`, rn))
		case rpBool:
			prints = append(prints, fmt.Sprintf(`fmt.Printf("REPLAY-OUT %%t\n", %s)`, rn))
		case rpMathInt:
			prints = append(prints, fmt.Sprintf(`fmt.Printf("REPLAY-OUT %%s\n", %s.String())`, rn))
		case rpDec:
			prints = append(prints, fmt.Sprintf(`fmt.Printf("REPLAY-OUT %%s\n", %s.BigInt().String())`, rn))
		case rpTime:
			prints = append(prints, fmt.Sprintf(`fmt.Printf("REPLAY-OUT %%d\n", %s.UnixNano())`, rn))
		case rpErr:
			prints = append(prints, fmt.Sprintf(`if %s == nil { fmt.Println("REPLAY-OUT nil") } else { fmt.Println("REPLAY-OUT error") }`, rn))
		case rpCoin:
			prints = append(prints, fmt.Sprintf(`if %s.Amount.IsNil() { fmt.Println("REPLAY-OUT 0") } else { fmt.Printf("REPLAY-OUT %%s\n", %s.Amount.String()) }`, rn, rn))
		}
	}
	assign := ""
	if len(rnames) > 0 {
		assign = strings.Join(rnames, ", ") + " := "
	}
	if isPanic {
		assign = ""
		if len(rts) > 0 {
			var blanks []string
			for range rts {
				blanks = append(blanks, "_")
			}
			assign = strings.Join(blanks, ", ") + " = "
		}
	}
	var imp strings.Builder
	imp.WriteString("\t\"fmt\"\n\t\"testing\"\n")
	helpers := ""
	if _, ok := imports["time"]; ok {
		imp.WriteString("\t\"time\"\n")
	}
	if _, ok := imports["cosmossdk.io/math"]; ok {
		imp.WriteString("\t\"math/big\"\n\tsdkmath \"cosmossdk.io/math\"\n")
		helpers = `
func mustInt(s string) sdkmath.Int { v, ok := sdkmath.NewIntFromString(s); if !ok { panic("bad int literal") }; return v }
func mustDec(s string) sdkmath.LegacyDec { b, ok := new(big.Int).SetString(s, 10); if !ok { panic("bad dec literal") }; return sdkmath.LegacyNewDecFromBigIntWithPrec(b, 18) }
var _ = mustInt
var _ = mustDec
`
	}
	test := fmt.Sprintf(`package %s

// generated by govc: replays a solver counterexample for
//   %s
// against the real function.

import (
%s)
%s
func TestVerifReplayModel(t *testing.T) {
	defer func() {
		if r := recover(); r != nil {
			fmt.Printf("REPLAY-PANIC %%v\n", r)
		}
	}()
	%s%s
	%s
}
`, fpkg.Pkg.Name(), o.Name, imp.String(), helpers, assign, call, strings.Join(prints, "\n\t"))
	res.Test = test
	pkgDir := filepath.Join(repoDir, strings.TrimPrefix(fpkg.Pkg.Path(), modPath+"/"))
	testFile := filepath.Join(dir, "replay_"+mangle(o.Name)+"_test.go")
	os.WriteFile(testFile, []byte(test), 0o644)
	ov := filepath.Join(dir, "replay_"+mangle(o.Name)+"_overlay.json")
	ovb, _ := json.Marshal(map[string]any{"Replace": map[string]string{filepath.Join(pkgDir, "zz_verif_replay_model_test.go"): testFile}})
	os.WriteFile(ov, ovb, 0o644)
	defer os.Remove(ov)
	cmd := exec.Command("go", "test", "-overlay", ov, "-vet=off", "-count=1", "-v", "-timeout", "60s", "-run", "^TestVerifReplayModel$", ".")
	cmd.Dir = pkgDir
	cmd.Env = append(os.Environ(), "GOFLAGS=-mod=mod", "GOPROXY=off", "GOSUMDB=off", "GOTOOLCHAIN=local")
	done := make(chan struct{})
	var tout []byte
	go func() { tout, _ = cmd.CombinedOutput(); close(done) }()
	select {
	case <-done:
	case <-time.After(150 * time.Second):
		if cmd.Process != nil {
			cmd.Process.Kill()
		}
		return &ReplayResult{Note: "replay test timed out", Inputs: res.Inputs, Test: test}
	}
	res.Output = string(tout)
	if len(res.Output) > 4000 {
		res.Output = res.Output[:4000]
	}
	panicked := false
	for _, l := range strings.Split(string(tout), "\n") {
		l = strings.TrimSpace(l)
		if strings.HasPrefix(l, "REPLAY-OUT ") {
			res.RealOut = append(res.RealOut, strings.TrimPrefix(l, "REPLAY-OUT "))
		}
		if strings.HasPrefix(l, "REPLAY-PANIC") {
			panicked = true
			res.RealOut = append(res.RealOut, l)
		}
	}
	if isPanic {
		res.Reproduced = panicked
		if !panicked {
			res.Note = "the real function does not panic on the model's inputs (the model of the quantifier-free relaxation is spurious)"
		}
		return res
	}
	if panicked {
		res.Note = "the real function panics on the model's inputs"
		return res
	}
	if len(res.RealOut) == len(res.ModelOut) && len(res.RealOut) > 0 {
		same := true
		for i := range res.RealOut {
			if res.RealOut[i] != res.ModelOut[i] {
				same = false
			}
		}
		res.Reproduced = same
		if !same {
			res.Note = "the real results differ from the model's (the model of the quantifier-free relaxation is spurious, or the encoding is imprecise here)"
		}
	} else {
		res.Note = "could not compare results"
	}
	return res
}

var _ = ssa.BuilderMode(0)
var _ = reValue
