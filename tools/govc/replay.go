package main

// Replay of solver counterexamples against the real code (go test -overlay; nothing is written into /repo).

type ReplayResult struct {
	Reproduced bool   `json:"reproduced"`
	Test       string `json:"test,omitempty"`
	Output     string `json:"output,omitempty"`
	Note       string `json:"note,omitempty"`
}

func tryReplay(p *Prog, o *Obligation, dir string) *ReplayResult {
	return &ReplayResult{Note: "no replay harness for this obligation kind; the solver model is in solver_output"}
}
