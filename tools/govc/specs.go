package main

// Trusted specifications of dependency functions (DESIGN §3.3, trusted base T3).
// Every entry is an assumption about code outside /repo and is listed in the evidence.

import (
	"fmt"
	"go/constant"
	"go/types"
	"strings"

	"golang.org/x/tools/go/ssa"
)

type specFn func(c *callCtx) Val

var libSpecs = map[string]specFn{}
var libMods = map[string]func(e *Engine, cc *ssa.CallCommon) []string{}
var invokeSpecs = map[string]specFn{}
var invokeMods = map[string]func(e *Engine, cc *ssa.CallCommon) []string{}

const mathPkg = "cosmossdk.io/math"

func boolT() types.Type { return types.Typ[types.Bool] }

func (c *callCtx) ret(s string) Val { return Val{S: s, T: c.rt} }
func (c *callCtx) def(hint, s string) Val {
	return Val{S: c.e().vc.define(hint, c.e().vc.sortOf(c.rt), s), T: c.rt}
}
func (c *callCtx) obl(kind, label, prop string) {
	c.e().addObl(c.st, kind, c.fr.lbl(label), prop, c.pos)
}
func (c *callCtx) tuple(vals ...string) Val {
	tt := c.rt.(*types.Tuple)
	v := Val{T: c.rt}
	for i, s := range vals {
		v.Tup = append(v.Tup, Val{S: s, T: tt.At(i).Type()})
	}
	return v
}
func (c *callCtx) freshErr(hint string) string {
	e := c.e()
	r := e.vc.fresh(hint, "Iface")
	e.vc.assume(not(eq(r, "iface_nil")))
	return r
}

func init() {
	// ---- cosmossdk.io/math.Int (unbounded; 256-bit overflow panics not modelled: listed assumption) ----
	bin := func(op string) specFn {
		return func(c *callCtx) Val { return c.def("i", app(op, c.args[0].S, c.args[1].S)) }
	}
	cmp := func(op string) specFn {
		return func(c *callCtx) Val { return c.ret(app(op, c.args[0].S, c.args[1].S)) }
	}
	id0 := func(c *callCtx) Val { return c.ret(c.args[0].S) }
	for _, ty := range []string{"Int", "Uint"} {
		p := "(" + mathPkg + "." + ty + ")."
		libSpecs[p+"Add"] = bin("+")
		libSpecs[p+"Sub"] = func(c *callCtx) Val {
			if strings.Contains(c.name, ".Uint)") {
				c.obl("panic.lib", "Uint.Sub_negative", app(">=", c.args[0].S, c.args[1].S))
			}
			return c.def("i", app("-", c.args[0].S, c.args[1].S))
		}
		libSpecs[p+"Mul"] = bin("*")
		libSpecs[p+"AddRaw"] = bin("+")
		libSpecs[p+"SubRaw"] = bin("-")
		libSpecs[p+"MulRaw"] = bin("*")
		libSpecs[p+"AddUint64"] = bin("+")
		libSpecs[p+"SubUint64"] = libSpecs[p+"Sub"]
		libSpecs[p+"MulUint64"] = bin("*")
		quo := func(c *callCtx) Val {
			c.obl("panic.lib", "Int.Quo_by_zero", not(eq(c.args[1].S, "0")))
			return c.def("q", app("tdiv", c.args[0].S, c.args[1].S))
		}
		libSpecs[p+"Quo"] = quo
		libSpecs[p+"QuoRaw"] = quo
		libSpecs[p+"QuoUint64"] = quo
		libSpecs[p+"Mod"] = func(c *callCtx) Val {
			c.obl("panic.lib", "Int.Mod_by_zero", not(eq(c.args[1].S, "0")))
			return c.def("m", app("mod", c.args[0].S, app("iabs", c.args[1].S)))
		}
		libSpecs[p+"ModRaw"] = libSpecs[p+"Mod"]
		libSpecs[p+"Neg"] = func(c *callCtx) Val { return c.ret(app("-", c.args[0].S)) }
		libSpecs[p+"Abs"] = func(c *callCtx) Val { return c.ret(app("iabs", c.args[0].S)) }
		libSpecs[p+"IsZero"] = func(c *callCtx) Val { return c.ret(eq(c.args[0].S, "0")) }
		libSpecs[p+"IsNegative"] = func(c *callCtx) Val { return c.ret(app("<", c.args[0].S, "0")) }
		libSpecs[p+"IsPositive"] = func(c *callCtx) Val { return c.ret(app(">", c.args[0].S, "0")) }
		libSpecs[p+"IsNil"] = func(c *callCtx) Val { return c.ret("false") }
		libSpecs[p+"LT"] = cmp("<")
		libSpecs[p+"GT"] = cmp(">")
		libSpecs[p+"LTE"] = cmp("<=")
		libSpecs[p+"GTE"] = cmp(">=")
		libSpecs[p+"Equal"] = func(c *callCtx) Val { return c.ret(eq(c.args[0].S, c.args[1].S)) }
		libSpecs[p+"BigInt"] = id0
		libSpecs[p+"ToLegacyDec"] = func(c *callCtx) Val { return c.def("d", app("dec_of_int", c.args[0].S)) }
		libSpecs[p+"Int64"] = func(c *callCtx) Val {
			c.obl("panic.lib", "Int.Int64_out_of_range", inRange(c.args[0].S, types.Typ[types.Int64]))
			return c.ret(c.args[0].S)
		}
		libSpecs[p+"Uint64"] = func(c *callCtx) Val {
			c.obl("panic.lib", "Int.Uint64_out_of_range", inRange(c.args[0].S, types.Typ[types.Uint64]))
			return c.ret(c.args[0].S)
		}
		libSpecs[p+"IsInt64"] = func(c *callCtx) Val { return c.ret(inRange(c.args[0].S, types.Typ[types.Int64])) }
		libSpecs[p+"IsUint64"] = func(c *callCtx) Val { return c.ret(inRange(c.args[0].S, types.Typ[types.Uint64])) }
		libSpecs[p+"String"] = func(c *callCtx) Val {
			c.e().vc.declFun("int_str", []string{"Int"}, "Str")
			return c.ret(app("int_str", c.args[0].S))
		}
		libSpecs[p+"Sign"] = func(c *callCtx) Val {
			return c.ret(ite(app("<", c.args[0].S, "0"), "(- 1)", ite(eq(c.args[0].S, "0"), "0", "1")))
		}
	}
	libSpecs[mathPkg+".NewInt"] = id0
	libSpecs[mathPkg+".NewIntFromUint64"] = id0
	libSpecs[mathPkg+".NewIntFromBigInt"] = id0
	libSpecs[mathPkg+".NewUint"] = id0
	libSpecs[mathPkg+".ZeroInt"] = func(c *callCtx) Val { return c.ret("0") }
	libSpecs[mathPkg+".OneInt"] = func(c *callCtx) Val { return c.ret("1") }
	libSpecs[mathPkg+".ZeroUint"] = func(c *callCtx) Val { return c.ret("0") }
	libSpecs[mathPkg+".MaxInt"] = func(c *callCtx) Val { return c.ret(app("imax", c.args[0].S, c.args[1].S)) }
	libSpecs[mathPkg+".MinInt"] = func(c *callCtx) Val { return c.ret(app("imin", c.args[0].S, c.args[1].S)) }

	// ---- LegacyDec: Int mantissa scaled by 10^18; Mul/Quo banker's rounding (math@v1.3.0/dec.go) ----
	d := "(" + mathPkg + ".LegacyDec)."
	libSpecs[mathPkg+".LegacyNewDec"] = func(c *callCtx) Val { return c.def("d", app("dec_of_int", c.args[0].S)) }
	libSpecs[mathPkg+".LegacyNewDecFromInt"] = libSpecs[mathPkg+".LegacyNewDec"]
	libSpecs[mathPkg+".LegacyNewDecFromBigInt"] = libSpecs[mathPkg+".LegacyNewDec"]
	libSpecs[mathPkg+".LegacyZeroDec"] = func(c *callCtx) Val { return c.ret("0") }
	libSpecs[mathPkg+".LegacyOneDec"] = func(c *callCtx) Val { return c.ret("1000000000000000000") }
	libSpecs[mathPkg+".LegacyNewDecWithPrec"] = func(c *callCtx) Val {
		if k, ok := c.common.Args[1].(*ssa.Const); ok && k.Value != nil {
			n, _ := constant.Int64Val(k.Value)
			if n >= 0 && n <= 18 {
				return c.def("d", app("*", c.args[0].S, "1"+strings.Repeat("0", int(18-n))))
			}
		}
		return c.fr.pureHavoc(c)
	}
	libSpecs[mathPkg+".LegacyMustNewDecFromStr"] = func(c *callCtx) Val {
		if k, ok := c.common.Args[0].(*ssa.Const); ok && k.Value != nil {
			if m, ok := decLiteral(constant.StringVal(k.Value)); ok {
				return c.ret(m)
			}
		}
		return c.fr.pureHavoc(c)
	}
	libSpecs[d+"Add"] = bin("+")
	libSpecs[d+"Sub"] = bin("-")
	// relational encodings: the result is a fresh constant constrained by linear inequalities (is_round_he / is_tdiv);
	// the functional definitions (div/mod with 10^18, 10^36) are much harder for the solvers
	relRound := func(c *callCtx, x string) string {
		e := c.e()
		q := e.vc.fresh("dq", "Int")
		e.vc.assume(app("is_round_he", x, q))
		return q
	}
	relTdiv := func(c *callCtx, a, b string) string {
		e := c.e()
		x := e.vc.fresh("dt", "Int")
		e.vc.assume(implies(not(eq(b, "0")), app("is_tdiv", a, b, x)))
		return x
	}
	libSpecs[d+"Mul"] = func(c *callCtx) Val {
		e := c.e()
		q := e.vc.defineAlways("dm", "Int", app("decmul", c.args[0].S, c.args[1].S))
		e.vc.assume(app("is_round_he", app("*", c.args[0].S, c.args[1].S), q))
		return c.ret(q)
	}
	libSpecs[d+"MulTruncate"] = func(c *callCtx) Val {
		return c.def("dm", app("tdiv", app("*", c.args[0].S, c.args[1].S), "1000000000000000000"))
	}
	libSpecs[d+"Quo"] = func(c *callCtx) Val {
		c.obl("panic.lib", "Dec.Quo_by_zero", not(eq(c.args[1].S, "0")))
		e := c.e()
		a, b := c.args[0].S, c.args[1].S
		x := e.vc.defineAlways("dqx", "Int", app("decquo_x", a, b))
		q := e.vc.defineAlways("dq", "Int", app("decquo", a, b))
		e.vc.assume(implies(not(eq(b, "0")), and(app("is_tdiv", app("*", a, "1000000000000000000000000000000000000"), b, x), app("is_round_he", x, q))))
		return c.ret(q)
	}
	libSpecs[d+"QuoTruncate"] = func(c *callCtx) Val {
		c.obl("panic.lib", "Dec.Quo_by_zero", not(eq(c.args[1].S, "0")))
		x := relTdiv(c, app("*", c.args[0].S, "1000000000000000000000000000000000000"), c.args[1].S)
		return c.ret(relTdiv(c, x, "1000000000000000000"))
	}
	libSpecs[d+"MulInt"] = bin("*")
	libSpecs[d+"MulInt64"] = bin("*")
	libSpecs[d+"QuoInt"] = func(c *callCtx) Val {
		c.obl("panic.lib", "Dec.QuoInt_by_zero", not(eq(c.args[1].S, "0")))
		return c.def("dq", app("tdiv", c.args[0].S, c.args[1].S))
	}
	libSpecs[d+"QuoInt64"] = libSpecs[d+"QuoInt"]
	truncOf := func(c *callCtx, a string) string {
		e := c.e()
		t := e.vc.defineAlways("dt", "Int", app("dectrunc", a))
		e.vc.assume(app("is_tdiv", a, "1000000000000000000", t))
		return t
	}
	libSpecs[d+"TruncateInt"] = func(c *callCtx) Val { return c.ret(truncOf(c, c.args[0].S)) }
	libSpecs[d+"TruncateDec"] = func(c *callCtx) Val {
		return c.def("t", app("dec_of_int", truncOf(c, c.args[0].S)))
	}
	libSpecs[d+"TruncateInt64"] = func(c *callCtx) Val {
		t := truncOf(c, c.args[0].S)
		c.obl("panic.lib", "Dec.TruncateInt64_out_of_range", inRange(t, types.Typ[types.Int64]))
		return c.ret(t)
	}
	libSpecs[d+"RoundInt"] = func(c *callCtx) Val { return c.ret(relRound(c, c.args[0].S)) }
	libSpecs[d+"RoundInt64"] = func(c *callCtx) Val {
		t := relRound(c, c.args[0].S)
		c.obl("panic.lib", "Dec.RoundInt64_out_of_range", inRange(t, types.Typ[types.Int64]))
		return c.ret(t)
	}
	libSpecs[d+"Ceil"] = func(c *callCtx) Val {
		x := c.args[0].S
		return c.def("c", app("*", app("-", app("div", app("-", x), "1000000000000000000")), "1000000000000000000"))
	}
	libSpecs[d+"BigInt"] = id0 // the mantissa
	libSpecs[d+"IsZero"] = func(c *callCtx) Val { return c.ret(eq(c.args[0].S, "0")) }
	libSpecs[d+"IsNil"] = func(c *callCtx) Val { return c.ret("false") }
	libSpecs[d+"IsNegative"] = func(c *callCtx) Val { return c.ret(app("<", c.args[0].S, "0")) }
	libSpecs[d+"IsPositive"] = func(c *callCtx) Val { return c.ret(app(">", c.args[0].S, "0")) }
	libSpecs[d+"Neg"] = func(c *callCtx) Val { return c.ret(app("-", c.args[0].S)) }
	libSpecs[d+"Abs"] = func(c *callCtx) Val { return c.ret(app("iabs", c.args[0].S)) }
	libSpecs[d+"LT"] = cmp("<")
	libSpecs[d+"GT"] = cmp(">")
	libSpecs[d+"LTE"] = cmp("<=")
	libSpecs[d+"GTE"] = cmp(">=")
	libSpecs[d+"Equal"] = func(c *callCtx) Val { return c.ret(eq(c.args[0].S, c.args[1].S)) }
	libSpecs[d+"String"] = func(c *callCtx) Val {
		c.e().vc.declFun("dec_str", []string{"Int"}, "Str")
		return c.ret(app("dec_str", c.args[0].S))
	}

	// ---- sync.Mutex / sync.RWMutex: ghost flag "the executing goroutine holds the lock" (lock discipline, C20) ----
	// Lock on a held lock would deadlock (obligation); Unlock of a lock that is not held panics (obligation).
	// One flag for all mutexes a function family touches: the identity of the mutex instance is not tracked.
	for _, m := range []string{"(*sync.Mutex).", "(*sync.RWMutex)."} {
		lock := func(c *callCtx) Val {
			e := c.e()
			e.initHeap("lock_held", "Bool")
			c.obl("lock", "lock_not_already_held", not(e.heap(c.st, "lock_held", "Bool")))
			e.setHeap(c.st, "lock_held", "Bool", "true")
			// number of critical sections entered so far (lockcount() in contracts): an operation that must be
			// atomic as a whole enters exactly one
			e.initHeap("lock_count", "Int")
			e.setHeap(c.st, "lock_count", "Int", app("+", e.heap(c.st, "lock_count", "Int"), "1"))
			return Val{T: c.rt}
		}
		unlock := func(c *callCtx) Val {
			e := c.e()
			e.initHeap("lock_held", "Bool")
			c.obl("lock", "unlock_of_a_held_lock", e.heap(c.st, "lock_held", "Bool"))
			e.setHeap(c.st, "lock_held", "Bool", "false")
			return Val{T: c.rt}
		}
		libSpecs[m+"Lock"] = lock
		libSpecs[m+"Unlock"] = unlock
		if m == "(*sync.RWMutex)." {
			libSpecs[m+"RLock"] = lock
			libSpecs[m+"RUnlock"] = unlock
		}
	}

	// ---- math/big.Int with value semantics (receiver mutation: result only; listed assumption) ----
	b := "(*math/big.Int)."
	libSpecs["math/big.NewInt"] = id0
	big3 := func(op string) specFn {
		return func(c *callCtx) Val { return c.def("b", app(op, c.args[1].S, c.args[2].S)) }
	}
	libSpecs[b+"Add"] = big3("+")
	libSpecs[b+"Sub"] = big3("-")
	libSpecs[b+"Mul"] = big3("*")
	libSpecs[b+"Quo"] = func(c *callCtx) Val {
		c.obl("panic.lib", "big.Quo_by_zero", not(eq(c.args[2].S, "0")))
		return c.def("b", app("tdiv", c.args[1].S, c.args[2].S))
	}
	libSpecs[b+"Div"] = func(c *callCtx) Val {
		c.obl("panic.lib", "big.Div_by_zero", not(eq(c.args[2].S, "0")))
		return c.def("b", app("div", c.args[1].S, c.args[2].S))
	}
	libSpecs[b+"Mod"] = func(c *callCtx) Val {
		c.obl("panic.lib", "big.Mod_by_zero", not(eq(c.args[2].S, "0")))
		return c.def("b", app("mod", c.args[1].S, c.args[2].S))
	}
	// (z).Exp(x, y, nil) for x == 2: pow2(y), an uninterpreted function with pow2(0) = 1 and the step fact
	// pow2(y) = 2 * pow2(y-1) asserted for the exponent at hand and its predecessor; other bases: unconstrained
	libSpecs[b+"Exp"] = func(c *callCtx) Val {
		e := c.e()
		if c.args[1].S == "2" {
			e.vc.declFun("pow2", []string{"Int"}, "Int")
			e.vc.declSort("(assert (= (pow2 0) 1))")
			e.vc.declSort("(assert (forall ((n Int)) (! (=> (> n 0) (= (pow2 n) (* 2 (pow2 (- n 1))))) :pattern ((pow2 n)))))")
			e.vc.declSort("(assert (forall ((n Int)) (! (=> (>= n 0) (>= (pow2 n) 1)) :pattern ((pow2 n)))))")
			y := c.args[2].S
			return c.def("b", ite(app(">=", y, "0"), app("pow2", y), "1"))
		}
		return c.fr.pureHavoc(c)
	}
	// z.Set*(x) used as a statement (result dropped): when z is a register defined in the same basic block as the
	// call (z := new(big.Int); z.SetUint64(x)), every later use of z is dominated by the call, so the register is
	// rebound to the new value. Other receivers keep result-only semantics (listed assumption).
	setRecv := func(c *callCtx) Val {
		if iv, ok := c.common.Args[0].(ssa.Instruction); ok && iv.Block() == c.instr.Block() {
			if old, ok := c.fr.regs[c.common.Args[0]]; ok && old.Addr == nil {
				old.S = c.args[1].S
				c.fr.regs[c.common.Args[0]] = old
			}
		}
		return c.ret(c.args[1].S)
	}
	libSpecs[b+"Set"] = setRecv
	libSpecs[b+"SetInt64"] = setRecv
	libSpecs[b+"SetUint64"] = setRecv
	libSpecs[b+"Neg"] = func(c *callCtx) Val { return c.ret(app("-", c.args[1].S)) }
	libSpecs[b+"Abs"] = func(c *callCtx) Val { return c.ret(app("iabs", c.args[1].S)) }
	libSpecs[b+"Cmp"] = func(c *callCtx) Val {
		x, y := c.args[0].S, c.args[1].S
		return c.def("cmp", ite(app("<", x, y), "(- 1)", ite(eq(x, y), "0", "1")))
	}
	libSpecs[b+"Sign"] = func(c *callCtx) Val {
		x := c.args[0].S
		return c.ret(ite(app("<", x, "0"), "(- 1)", ite(eq(x, "0"), "0", "1")))
	}
	libSpecs[b+"Int64"] = func(c *callCtx) Val {
		// big.Int.Int64 truncates silently (low 64 bits, two's complement)
		return c.def("i64", wrapInt(c.args[0].S, types.Typ[types.Int64]))
	}
	libSpecs[b+"Uint64"] = func(c *callCtx) Val {
		return c.def("u64", wrapInt(c.args[0].S, types.Typ[types.Uint64]))
	}
	libSpecs[b+"IsInt64"] = func(c *callCtx) Val { return c.ret(inRange(c.args[0].S, types.Typ[types.Int64])) }
	libSpecs[b+"IsUint64"] = func(c *callCtx) Val { return c.ret(inRange(c.args[0].S, types.Typ[types.Uint64])) }
	libSpecs[b+"SetString"] = func(c *callCtx) Val {
		// (z).SetString(s, base): ok iff s is an optionally signed non-empty digit string in that base (no prefix for base != 0)
		e := c.e()
		base := "10"
		if k, ok := c.common.Args[2].(*ssa.Const); ok && k.Value != nil {
			base = k.Value.ExactString()
		}
		e.vc.declFun("isnum"+base, []string{"Str"}, "Bool")
		e.vc.declFun("numval"+base, []string{"Str"}, "Int")
		s := c.args[1].S
		ok := e.vc.define("ok", "Bool", app("isnum"+base, s))
		return c.tuple(ite(ok, app("numval"+base, s), "0"), ok)
	}
	libSpecs[b+"String"] = func(c *callCtx) Val {
		c.e().vc.declFun("int_str", []string{"Int"}, "Str")
		return c.ret(app("int_str", c.args[0].S))
	}

	// ---- time ----
	t := "(time.Time)."
	libSpecs[t+"Before"] = cmp("<")
	libSpecs[t+"After"] = cmp(">")
	libSpecs[t+"Equal"] = func(c *callCtx) Val { return c.ret(eq(c.args[0].S, c.args[1].S)) }
	libSpecs[t+"IsZero"] = func(c *callCtx) Val { return c.ret(eq(c.args[0].S, timeZeroNs)) }
	libSpecs[t+"Sub"] = func(c *callCtx) Val {
		// saturating at the Duration range
		dd := app("-", c.args[0].S, c.args[1].S)
		return c.def("dur", app("imax", "(- 9223372036854775808)", app("imin", "9223372036854775807", dd)))
	}
	libSpecs[t+"Add"] = func(c *callCtx) Val { return c.def("t", app("+", c.args[0].S, c.args[1].S)) }
	libSpecs[t+"Unix"] = func(c *callCtx) Val { return c.def("u", app("div", c.args[0].S, "1000000000")) }
	libSpecs[t+"UnixMilli"] = func(c *callCtx) Val { return c.def("u", app("div", c.args[0].S, "1000000")) }
	libSpecs[t+"UnixNano"] = func(c *callCtx) Val { return c.ret(c.args[0].S) }
	libSpecs[t+"UTC"] = id0
	libSpecs["time.Unix"] = func(c *callCtx) Val {
		return c.def("t", app("+", app("*", c.args[0].S, "1000000000"), c.args[1].S))
	}
	libSpecs["time.UnixMilli"] = func(c *callCtx) Val { return c.def("t", app("*", c.args[0].S, "1000000")) }
	du := "(time.Duration)."
	libSpecs[du+"Milliseconds"] = func(c *callCtx) Val { return c.def("ms", app("tdiv", c.args[0].S, "1000000")) }
	libSpecs[du+"Nanoseconds"] = id0
	// Duration.Truncate(m): toward zero to a multiple of m (d itself for m <= 0)
	libSpecs[du+"Truncate"] = func(c *callCtx) Val {
		d, m := c.args[0].S, c.args[1].S
		return c.def("dtrunc", ite(app("<=", m, "0"), d, app("-", d, app("trem", d, m))))
	}
	// Duration.Round(m): to the nearest multiple of m, halfway values away from zero (d itself for m <= 0; the
	// saturation at the int64 range is not modelled)
	libSpecs[du+"Round"] = func(c *callCtx) Val {
		d, m := c.args[0].S, c.args[1].S
		r := app("trem", d, m)
		pos := ite(app("<", app("+", r, r), m), app("-", d, r), app("-", app("+", d, m), r))
		nr := app("-", r)
		neg := ite(app("<", app("+", nr, nr), m), app("+", d, nr), app("+", app("-", d, m), nr))
		return c.def("dround", ite(app("<=", m, "0"), d, ite(app(">=", d, "0"), pos, neg)))
	}
	libSpecs[du+"Microseconds"] = func(c *callCtx) Val { return c.def("us", app("tdiv", c.args[0].S, "1000")) }

	// ---- errors / fmt ----
	newErr := func(c *callCtx) Val { return c.ret(c.freshErr("err")) }
	libSpecs["errors.New"] = newErr
	libSpecs["fmt.Errorf"] = newErr
	libSpecs["cosmossdk.io/errors.Wrap"] = func(c *callCtx) Val {
		return c.ret(ite(eq(c.args[0].S, "iface_nil"), "iface_nil", c.freshErr("werr")))
	}
	libSpecs["cosmossdk.io/errors.Wrapf"] = libSpecs["cosmossdk.io/errors.Wrap"]
	libSpecs["(*cosmossdk.io/errors.Error).Wrap"] = newErr
	libSpecs["(*cosmossdk.io/errors.Error).Wrapf"] = newErr
	libSpecs["google.golang.org/grpc/status.Error"] = newErr
	libSpecs["google.golang.org/grpc/status.Errorf"] = newErr
	libSpecs["errors.Is"] = func(c *callCtx) Val {
		e := c.e()
		e.vc.declFun("errors_is", []string{"Iface", "Iface"}, "Bool")
		a, bb := c.args[0].S, c.args[1].S
		r := e.vc.define("is", "Bool", app("errors_is", a, bb))
		e.vc.assume(implies(eq(a, bb), r))
		e.vc.assume(implies(and(eq(a, "iface_nil"), not(eq(bb, "iface_nil"))), not(r)))
		return c.ret(r)
	}
	libSpecs["fmt.Sprintf"] = func(c *callCtx) Val { return c.fr.pureHavoc(c) }
	libSpecs["fmt.Sprint"] = libSpecs["fmt.Sprintf"]

	// ---- sdk coins ----
	const sdkT = "github.com/cosmos/cosmos-sdk/types"
	libSpecs[sdkT+".NewCoin"] = func(c *callCtx) Val {
		c.obl("panic.lib", "NewCoin_negative_amount", app(">=", c.args[1].S, "0"))
		ss := c.e().vc.structInfo(c.rt)
		return c.def("coin", app("mk_"+ss.name, c.args[0].S, c.args[1].S))
	}
	libSpecs[sdkT+".NewInt64Coin"] = libSpecs[sdkT+".NewCoin"]
	libSpecs["("+sdkT+".Coin).IsZero"] = func(c *callCtx) Val { return c.ret(eq(coinAmt(c, c.args[0]), "0")) }
	libSpecs["("+sdkT+".Coin).IsPositive"] = func(c *callCtx) Val { return c.ret(app(">", coinAmt(c, c.args[0]), "0")) }
	libSpecs["("+sdkT+".Coin).IsNegative"] = func(c *callCtx) Val { return c.ret(app("<", coinAmt(c, c.args[0]), "0")) }
	libSpecs["("+sdkT+".Coin).Sub"] = func(c *callCtx) Val {
		a, bb := c.args[0], c.args[1]
		c.obl("panic.lib", "Coin.Sub_denom_mismatch", eq(coinDenom(c, a), coinDenom(c, bb)))
		c.obl("panic.lib", "Coin.Sub_negative_result", app(">=", coinAmt(c, a), coinAmt(c, bb)))
		ss := c.e().vc.structInfo(c.rt)
		return c.def("coin", app("mk_"+ss.name, coinDenom(c, a), app("-", coinAmt(c, a), coinAmt(c, bb))))
	}
	libSpecs["("+sdkT+".Coin).Add"] = func(c *callCtx) Val {
		a, bb := c.args[0], c.args[1]
		c.obl("panic.lib", "Coin.Add_denom_mismatch", eq(coinDenom(c, a), coinDenom(c, bb)))
		ss := c.e().vc.structInfo(c.rt)
		return c.def("coin", app("mk_"+ss.name, coinDenom(c, a), app("+", coinAmt(c, a), coinAmt(c, bb))))
	}
	libSpecs["("+sdkT+".Coin).IsGTE"] = func(c *callCtx) Val {
		c.obl("panic.lib", "Coin.IsGTE_denom_mismatch", eq(coinDenom(c, c.args[0]), coinDenom(c, c.args[1])))
		return c.ret(app(">=", coinAmt(c, c.args[0]), coinAmt(c, c.args[1])))
	}
	libSpecs["("+sdkT+".Coin).IsLT"] = func(c *callCtx) Val {
		c.obl("panic.lib", "Coin.IsLT_denom_mismatch", eq(coinDenom(c, c.args[0]), coinDenom(c, c.args[1])))
		return c.ret(app("<", coinAmt(c, c.args[0]), coinAmt(c, c.args[1])))
	}
	// NewCoins(coins...): sanitised set. Modelled exactly for zero or one argument (the only shapes in layer).
	libSpecs[sdkT+".NewCoins"] = func(c *callCtx) Val {
		e := c.e()
		in := c.args[0]
		sl := types.Unalias(c.rt).Underlying().(*types.Slice)
		hn, hs := e.vc.arrHeapName(sl.Elem())
		h := e.heap(c.st, hn, hs)
		n := app("slen", in.S)
		c0 := app("select", app("select", h, app("sptr", in.S)), app("idx", app("soff", in.S), "0"))
		ss := e.vc.structInfo(sl.Elem())
		amt := app(ss.fields[1], c0)
		c.obl("panic.lib", "NewCoins_negative_amount", implies(app(">=", n, "1"), app(">=", amt, "0")))
		ref := e.alloc(c.st)
		arr := e.vc.fresh("coinsarr", "(Array Int "+ss.name+")")
		e.setHeap(c.st, hn, hs, app("store", h, ref, arr))
		r := e.vc.fresh("coins", "Slice")
		e.assumeIn(c.st, and(eq(app("sptr", r), ref), eq(app("soff", r), "0"), app(">=", app("slen", r), "0")))
		e.assumeIn(c.st, implies(eq(n, "0"), eq(app("slen", r), "0")))
		e.assumeIn(c.st, implies(eq(n, "1"), ite(eq(amt, "0"), eq(app("slen", r), "0"), and(eq(app("slen", r), "1"), eq(app("select", arr, "0"), c0)))))
		e.assumeIn(c.st, app("<=", app("slen", r), n))
		return c.ret(r)
	}
	libMods[sdkT+".NewCoins"] = func(e *Engine, cc *ssa.CallCommon) []string { return nil }
	libSpecs["("+sdkT+".Coins).IsAllPositive"] = func(c *callCtx) Val {
		// sanitised coin sets never hold zero or negative amounts, so "all positive" is "non-empty"
		e := c.e()
		return c.ret(and(app(">", app("slen", c.args[0].S), "0"), app(">", e.coinsTotal(c.st, c.args[0]), "0")))
	}
	libSpecs["("+sdkT+".Coins).IsZero"] = func(c *callCtx) Val { return c.ret(eq(c.e().coinsTotal(c.st, c.args[0]), "0")) }
	// Coins.Sub / Coins.Add for single-denomination sets: the result is a fresh set with the right total
	coinsArith := func(op string) specFn {
		return func(c *callCtx) Val {
			e := c.e()
			a := e.coinsTotal(c.st, c.args[0])
			b := e.coinsTotal(c.st, c.args[1])
			if op == "-" {
				c.obl("panic.lib", "Coins.Sub_negative_result", app(">=", a, b))
			}
			r := e.freshVal(c.st, "coinsres", c.rt)
			sl := types.Unalias(c.rt).Underlying().(*types.Slice)
			hn, hs := e.vc.arrHeapName(sl.Elem())
			ss := e.vc.structInfo(sl.Elem())
			tot := e.vc.define("ctot", "Int", app(op, a, b))
			c0 := app("select", app("select", e.heap(c.st, hn, hs), app("sptr", r.S)), app("idx", app("soff", r.S), "0"))
			d0 := app("select", app("select", e.heap(c.st, hn, hs), app("sptr", c.args[0].S)), app("idx", app("soff", c.args[0].S), "0"))
			e.assumeIn(c.st, and(app("<=", app("slen", r.S), "1"), eq(eq(app("slen", r.S), "0"), eq(tot, "0"))))
			e.assumeIn(c.st, implies(eq(app("slen", r.S), "1"), and(eq(app(ss.fields[1], c0), tot), eq(app(ss.fields[0], c0), app(ss.fields[0], d0)))))
			e.note("approx", "Coins.Sub/Add modelled for single-denomination coin sets")
			return r
		}
	}
	libSpecs["("+sdkT+".Coins).Sub"] = coinsArith("-")
	libSpecs["("+sdkT+".Coins).Add"] = coinsArith("+")
	libSpecs["("+sdkT+".Coins).Empty"] = func(c *callCtx) Val { return c.ret(eq(app("slen", c.args[0].S), "0")) }
	libSpecs["("+sdkT+".Coins).Len"] = func(c *callCtx) Val { return c.ret(app("slen", c.args[0].S)) }
	libSpecs["("+sdkT+".Coins).IsZero"] = func(c *callCtx) Val { return c.ret(eq(app("slen", c.args[0].S), "0")) }
	libSpecs["("+sdkT+".Coins).AmountOf"] = func(c *callCtx) Val {
		e := c.e()
		in := c.args[0]
		sl := types.Unalias(in.T).Underlying().(*types.Slice)
		hn, hs := e.vc.arrHeapName(sl.Elem())
		ss := e.vc.structInfo(sl.Elem())
		c0 := app("select", app("select", e.heap(c.st, hn, hs), app("sptr", in.S)), app("idx", app("soff", in.S), "0"))
		n := app("slen", in.S)
		r := e.vc.fresh("amountof", "Int")
		e.assumeIn(c.st, app(">=", r, "0"))
		e.assumeIn(c.st, implies(eq(n, "0"), eq(r, "0")))
		e.assumeIn(c.st, implies(eq(n, "1"), eq(r, ite(eq(app(ss.fields[0], c0), c.args[1].S), app(ss.fields[1], c0), "0"))))
		return c.ret(r)
	}
	libSpecs[sdkT+".UnwrapSDKContext"] = func(c *callCtx) Val {
		e := c.e()
		srt := e.vc.sortOf(c.rt)
		e.vc.declFun("unwrap_ctx", []string{"Iface"}, srt)
		return c.ret(app("unwrap_ctx", c.args[0].S))
	}
	ctxM := "(" + sdkT + ".Context)."
	libSpecs[ctxM+"BlockHeight"] = func(c *callCtx) Val {
		e := c.e()
		e.vc.declFun("ctx_height", []string{e.vc.sortOf(c.args[0].T)}, "Int")
		r := app("ctx_height", c.args[0].S)
		e.vc.assume(and(app("<=", "0", r), app("<=", r, "9223372036854775807")))
		return c.ret(r)
	}
	libSpecs[ctxM+"BlockTime"] = func(c *callCtx) Val {
		e := c.e()
		e.declCtxTime(e.vc.sortOf(c.args[0].T))
		return c.ret(app("ctx_time", c.args[0].S))
	}
	libSpecs[ctxM+"Logger"] = func(c *callCtx) Val { return c.fr.pureHavoc(c) }
	libSpecs[ctxM+"EventManager"] = func(c *callCtx) Val { return c.fr.pureHavoc(c) }
	libSpecs[ctxM+"IsCheckTx"] = func(c *callCtx) Val { return c.fr.pureHavoc(c) }

	// ---- strings ----
	libSpecs["strings.ToLower"] = func(c *callCtx) Val {
		e := c.e()
		e.vc.declFun("str_lower", []string{"Str"}, "Str")
		r := e.vc.define("low", "Str", app("str_lower", c.args[0].S))
		e.vc.assume(eq(app("str_lower", r), r))
		e.vc.assume(eq(app("str_len", r), app("str_len", c.args[0].S)))
		return c.ret(r)
	}
	libSpecs["strings.EqualFold"] = func(c *callCtx) Val {
		e := c.e()
		e.vc.declFun("str_lower", []string{"Str"}, "Str")
		return c.ret(eq(app("str_lower", c.args[0].S), app("str_lower", c.args[1].S)))
	}
	libSpecs["strings.HasPrefix"] = func(c *callCtx) Val {
		e := c.e()
		e.vc.declFun("str_hasprefix", []string{"Str", "Str"}, "Bool")
		r := app("str_hasprefix", c.args[0].S, c.args[1].S)
		e.vc.assume(implies(r, app(">=", app("str_len", c.args[0].S), app("str_len", c.args[1].S))))
		return c.ret(r)
	}
	libSpecs["strings.TrimPrefix"] = func(c *callCtx) Val {
		e := c.e()
		e.vc.declFun("str_hasprefix", []string{"Str", "Str"}, "Bool")
		e.vc.declFun("str_trimprefix", []string{"Str", "Str"}, "Str")
		s, p := c.args[0].S, c.args[1].S
		r := e.vc.define("trim", "Str", ite(app("str_hasprefix", s, p), app("str_trimprefix", s, p), s))
		e.vc.assume(implies(app("str_hasprefix", s, p), eq(app("str_len", r), app("-", app("str_len", s), app("str_len", p)))))
		return c.ret(r)
	}

	libSpecs["bytes.Equal"] = func(c *callCtx) Val {
		e := c.e()
		return c.ret(eq(e.bvOf(c.st, c.args[0]), e.bvOf(c.st, c.args[1])))
	}
	// bytes.Compare: the lexicographic order as an uninterpreted total comparison bv_cmp (0 iff equal contents,
	// antisymmetric, values -1/0/1); bytescmp(a, b) in contracts
	libSpecs["bytes.Compare"] = func(c *callCtx) Val {
		e := c.e()
		e.declBvCmp()
		return c.ret(app("bv_cmp", e.bvOf(c.st, c.args[0]), e.bvOf(c.st, c.args[1])))
	}
	// ---- sort ----
	libSpecs["sort.Slice"] = func(c *callCtx) Val { return sortSpec(c, false) }
	libSpecs["sort.SliceStable"] = func(c *callCtx) Val { return sortSpec(c, true) }
	sortMods := func(e *Engine, cc *ssa.CallCommon) []string {
		// the slice argument is boxed in an interface; find its static type
		if mi, ok := cc.Args[0].(*ssa.MakeInterface); ok {
			if sl, ok := types.Unalias(mi.X.Type()).Underlying().(*types.Slice); ok {
				hn, hs := e.vc.arrHeapName(sl.Elem())
				e.heapSorts[hn] = hs
				return []string{hn}
			}
		}
		return []string{"G_*"}
	}
	libMods["sort.Slice"] = sortMods
	libMods["sort.SliceStable"] = sortMods
}

func coinAmt(c *callCtx, v Val) string {
	ss := c.e().vc.structInfo(v.T)
	return app(ss.fields[1], v.S)
}
func coinDenom(c *callCtx, v Val) string {
	ss := c.e().vc.structInfo(v.T)
	return app(ss.fields[0], v.S)
}

// decLiteral parses a decimal literal such as "0.05" into an 18-decimal mantissa.
func decLiteral(s string) (string, bool) {
	neg := strings.HasPrefix(s, "-")
	s = strings.TrimPrefix(s, "-")
	ip, fp := s, ""
	if i := strings.Index(s, "."); i >= 0 {
		ip, fp = s[:i], s[i+1:]
	}
	if len(fp) > 18 {
		return "", false
	}
	for _, ch := range ip + fp {
		if ch < '0' || ch > '9' {
			return "", false
		}
	}
	m := strings.TrimLeft(ip+fp+strings.Repeat("0", 18-len(fp)), "0")
	if m == "" {
		m = "0"
	}
	if neg {
		return "(- " + m + ")", true
	}
	return m, true
}

func prefixSpec(name string) specFn {
	return nil
}

func pureLib(name string) bool { return true }

// pureInvoke: interface methods known not to modify modelled state.
func pureInvoke(cc *ssa.CallCommon) bool {
	switch cc.Method.Name() {
	case "Error", "String", "GetSigners", "GetMsgs", "ValidateBasic", "GetAddress", "GetName", "Logger", "Bytes":
		return true
	case "GetOperator", "TokensFromShares", "TokensFromSharesTruncated", "MaxValidators", "GetConsensusPower", "IsBonded", "IsJailed", "GetTokens", "GetBondedTokens", "GetStatus", "GetDelegatorShares", "TotalBondedTokens":
		// ValidatorI / ValidatorSet of the staking module: reads
		return strings.Contains(typeKeyFull(cc.Value.Type()), "cosmos-sdk/x/staking/types.")
	case "MustMarshal", "Marshal", "MustMarshalJSON", "MarshalJSON":
		// codec.BinaryCodec / JSONCodec: serialisation reads its argument and writes nothing modelled
		return strings.Contains(typeKeyFull(cc.Value.Type()), "cosmos-sdk/codec.")
	}
	return false
}

// ---------- sort.Slice / sort.SliceStable ----------

// The sorted slice's backing array is replaced by a fresh array that is a permutation of the old one
// (witnessed by an uninterpreted bijection) and ordered with respect to the less closure.
// When less is provably `elem(i) < elem(j)` on integers, the abstract sequence facts (seq_of/sorted_of) are added.
func sortSpec(c *callCtx, stable bool) Val {
	e := c.e()
	fr := c.fr
	st := c.st
	// arg0: interface boxing a slice; recover the slice value from the MakeInterface
	mi, ok := c.common.Args[0].(*ssa.MakeInterface)
	if !ok {
		e.note("unmodelled", "sort.Slice on non-literal interface")
		return fr.havocCall(c, true)
	}
	sv := fr.get(mi.X)
	sl, ok := types.Unalias(sv.T).Underlying().(*types.Slice)
	if !ok {
		return fr.havocCall(c, true)
	}
	less := c.args[1]
	if less.Clo == nil {
		e.note("unmodelled", "sort.Slice with non-closure less")
		return fr.havocCall(c, true)
	}
	hn, hs := e.vc.arrHeapName(sl.Elem())
	es := e.vc.sortOf(sl.Elem())
	h := e.heap(st, hn, hs)
	ptr, off, n := app("sptr", sv.S), app("soff", sv.S), app("slen", sv.S)
	oldArr := e.vc.define("sort_old", "(Array Int "+es+")", app("select", h, ptr))
	newArr := e.vc.fresh("sort_new", "(Array Int "+es+")")
	e.sortN++
	k := e.sortN
	// permutation witness: pi is a bijection on all integers (identity outside [0,n)), so that the axioms are
	// unconditional and E-matching merges pinv(pi(j)) with j at once (no matching loop)
	pi, pinv := fmt.Sprintf("sort_pi_%d", k), fmt.Sprintf("sort_pinv_%d", k)
	e.vc.declFun(pi, []string{"Int"}, "Int")
	e.vc.declFun(pinv, []string{"Int"}, "Int")
	inR := func(t string) string { return and(app("<=", "0", t), app("<", t, n)) }
	e.assumeIn(st, fmt.Sprintf("(forall ((j Int)) (! (and (= (%s (%s j)) j) (= (select %s (idx %s j)) (select %s (idx %s (%s j)))) (= %s %s) (=> (not %s) (= (%s j) j))) :pattern ((%s j)) :pattern ((select %s (idx %s j)))))",
		pinv, pi, newArr, off, oldArr, off, pi, inR("j"), inR(app(pi, "j")), inR("j"), pi, pi, newArr, off))
	e.assumeIn(st, fmt.Sprintf("(forall ((m Int)) (! (and (= (%s (%s m)) m) (= %s %s)) :pattern ((%s m)) :pattern ((select %s (idx %s m)))))",
		pi, pinv, inR("m"), inR(app(pinv, "m")), pinv, oldArr, off))
	e.setHeap(st, hn, hs, app("store", h, ptr, newArr))
	e.sortPerms = append(e.sortPerms, sortPerm{pre: h, post: st.heaps[hn], n: n})

	// evaluate less on an arbitrary content with fresh indices: panic-freedom + shape detection
	probe := st.clone()
	anyArr := e.vc.fresh("sort_any", "(Array Int "+es+")")
	// whatever sort.Slice shows the closure is some rearrangement of the original elements (it only swaps): every
	// element of the probed content is one of the old elements, so properties of all old elements (non-nil) carry over
	qf := fmt.Sprintf("sort_q_%d", k)
	e.vc.declFun(qf, []string{"Int"}, "Int")
	e.vc.assume(fmt.Sprintf("(forall ((j Int)) (! (=> %s (and %s (= (select %s (idx %s j)) (select %s (idx %s (%s j)))))) :pattern ((select %s (idx %s j)))))",
		inR("j"), inR(app(qf, "j")), anyArr, off, oldArr, off, qf, anyArr, off))
	e.setHeap(probe, hn, hs, app("store", e.heap(probe, hn, hs), ptr, anyArr))
	i0, j0 := e.vc.fresh("si", "Int"), e.vc.fresh("sj", "Int")
	probe.cond = e.vc.define("probe", "Bool", and(st.cond, app("<=", "0", i0), app("<", i0, n), app("<=", "0", j0), app("<", j0, n)))
	pctx := &callCtx{fr: fr, st: probe, instr: c.instr, common: c.common, rt: types.Typ[types.Bool], pos: c.pos}
	r := fr.inline(pctx, less.Clo.fn, less.Clo.bindings, []Val{{S: i0, T: types.Typ[types.Int]}, {S: j0, T: types.Typ[types.Int]}})
	if len(e.oos) > 0 {
		return Val{T: c.rt}
	}
	if kindOf(sl.Elem()) == kInt {
		// is less(i,j) == elem[i] < elem[j] ? decided by the solver at run time through a guarded assumption:
		// plainLess_k is defined as that equivalence for all contents; facts below are conditional on it.
		ei, ej := app("select", anyArr, app("idx", off, i0)), app("select", anyArr, app("idx", off, j0))
		o := e.addObl(probe, "sort.less_is_lt", fr.lbl(fmt.Sprintf("sort%d", k)), eq(r.S, app("<", ei, ej)), c.pos)
		o.Kind = "sort.less_is_lt"
		// the facts are only sound if the obligation holds; the obligation is part of the function's proof
		e.declSeq()
		sOld := app("seq_of", oldArr, off, n)
		e.assumeIn(st, eq(app("seq_of", newArr, off, n), app("sorted_of", sOld)))
		e.assumeIn(st, fmt.Sprintf("(forall ((a Int) (b Int)) (! (=> (and (<= 0 a) (< a b) (< b %s)) (<= (select %s (idx %s a)) (select %s (idx %s b)))) :pattern ((select %s (idx %s a)) (select %s (idx %s b)))))", n, newArr, off, newArr, off, newArr, off, newArr, off))
		e.sortDeps = append(e.sortDeps, o.Name)
	}
	// ordering facts: the closure is evaluated in pure-term mode on the post-sort state with quantified indices
	{
		sa, sb := fmt.Sprintf("sa_q%d", k), fmt.Sprintf("sb_q%d", k)
		n0 := e.vc.n
		e.vc.inline = true
		post := st.clone()
		ictx := &callCtx{fr: fr, st: post, instr: c.instr, common: c.common, rt: types.Typ[types.Bool], pos: c.pos}
		rr := fr.inline(ictx, less.Clo.fn, less.Clo.bindings, []Val{{S: sb, T: types.Typ[types.Int]}, {S: sa, T: types.Typ[types.Int]}})
		e.vc.inline = false
		if e.vc.n != n0 || len(e.oos) > 0 || rr.S == "" {
			e.note("approx", "sort: ordering facts could not be derived from the less closure (permutation + frame only)")
		} else {
			e.assumeIn(st, fmt.Sprintf("(forall ((%s Int) (%s Int)) (! (=> (and (<= 0 %s) (< %s %s) (< %s %s)) (not %s)) :pattern ((select %s (idx %s %s)) (select %s (idx %s %s)))))",
				sa, sb, sa, sa, sb, sb, n, rr.S, newArr, off, sa, newArr, off, sb))
		}
	}
	return Val{T: c.rt}
}

func (e *Engine) declBvCmp() {
	if e.vc.declared["bv_cmp"] {
		return
	}
	e.vc.declared["bv_cmp"] = true
	e.declAddr()
	e.vc.declFun("bv_cmp", []string{"BV", "BV"}, "Int")
	e.vc.declSort("(assert (forall ((a BV) (b BV)) (! (and (<= (- 1) (bv_cmp a b)) (<= (bv_cmp a b) 1) (= (= (bv_cmp a b) 0) (= a b)) (= (bv_cmp a b) (- (bv_cmp b a)))) :pattern ((bv_cmp a b)))))")
}

// declSeq declares the abstract integer sequences used to talk about sorted copies.
func (e *Engine) declSeq() {
	if e.vc.declared["seq"] {
		return
	}
	e.vc.declared["seq"] = true
	e.vc.declSort("(declare-sort SeqI 0)")
	e.vc.declFun("seq_of", []string{"(Array Int Int)", "Int", "Int"}, "SeqI")
	e.vc.declFun("seq_at", []string{"SeqI", "Int"}, "Int")
	e.vc.declFun("seq_len", []string{"SeqI"}, "Int")
	e.vc.declFun("sorted_of", []string{"SeqI"}, "SeqI")
	e.vc.declSort("(assert (forall ((a (Array Int Int)) (o Int) (n Int)) (! (= (seq_len (seq_of a o n)) n) :pattern ((seq_of a o n)))))")
	e.vc.declSort("(assert (forall ((a (Array Int Int)) (o Int) (n Int) (k Int)) (! (=> (and (<= 0 k) (< k n)) (= (seq_at (seq_of a o n) k) (select a (idx o k)))) :pattern ((seq_at (seq_of a o n) k)))))")
	e.vc.declSort("(assert (forall ((s SeqI)) (! (= (seq_len (sorted_of s)) (seq_len s)) :pattern ((sorted_of s)))))")
	e.vc.declSort("(assert (forall ((s SeqI) (a Int) (b Int)) (! (=> (and (<= 0 a) (< a b) (< b (seq_len s))) (<= (seq_at (sorted_of s) a) (seq_at (sorted_of s) b))) :pattern ((seq_at (sorted_of s) a) (seq_at (sorted_of s) b)))))")
}

type sortSite struct {
	k           int
	less        Val
	newArr, off string
	n, oldArr   string
	pi          string
	elem        types.Type
	sv          Val
	stable      bool
}

// sortPerm records that heap term post is heap term pre with one slice segment permuted (length n).
type sortPerm struct{ pre, post, n string }
