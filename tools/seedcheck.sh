#!/bin/bash
# seedcheck.sh <seed-dir-in-/tmp> <name> <property> [extra properties...]
# Confirms a seeded change (patch.diff + demo_test.go + meta.json) in a scratch worktree, runs the property
# checks against it in /repo, restores /repo, and stores the result under /verif/seeded/<name>/.
set -u
export GOFLAGS=-mod=mod GOPROXY=off GOSUMDB=off GOTOOLCHAIN=local
SRC=$1; NAME=$2; shift 2; PROPS="$@"
OUT=/verif/seeded/$NAME
WT=/tmp/wtv_$NAME
if [ -n "$(git -C /repo status --porcelain)" ]; then echo "/repo has uncommitted changes: commit them first (the seed is undone with git checkout -- .)"; exit 2; fi
mkdir -p $OUT
cp $SRC/patch.diff $OUT/patch.diff
cp $SRC/demo_test.go $OUT/demo_test.go
DEMODIR=$(python3 -c "import json;print(json.load(open('$SRC/meta.json'))['demo_dir'])")
DEMORUN=$(python3 -c "import json;print(json.load(open('$SRC/meta.json'))['demo_run'])")
git -C /repo worktree add -q --detach $WT HEAD || exit 2
cd $WT
cp $OUT/demo_test.go $DEMODIR/zz_seed_demo_test.go
echo "== demo on unchanged code (must pass)"; $DEMORUN > $OUT/demo_unchanged.txt 2>&1; R0=$?; tail -3 $OUT/demo_unchanged.txt
git apply $OUT/patch.diff || { echo "PATCH DOES NOT APPLY"; cd /; git -C /repo worktree remove --force $WT; exit 2; }
echo "== demo with change (must fail)"; $DEMORUN > $OUT/demo_changed.txt 2>&1; R1=$?; tail -5 $OUT/demo_changed.txt
rm $DEMODIR/zz_seed_demo_test.go
PKGS=$(git diff --name-only | xargs -n1 dirname | sort -u | sed 's|^|./|' | tr '\n' ' ')
echo "== build + existing tests of touched packages: $PKGS"
go build ./... > $OUT/build.txt 2>&1; RB=$?
go test -count=1 -vet=off $PKGS > $OUT/existing_tests.txt 2>&1; RT=$?; tail -4 $OUT/existing_tests.txt
cd /; git -C /repo worktree remove --force $WT
echo "demo_unchanged_exit=$R0 demo_changed_exit=$R1 build_exit=$RB existing_tests_exit=$RT"
DET=""
if [ $R0 -eq 0 ] && [ $R1 -ne 0 ] && [ $RB -eq 0 ] && [ $RT -eq 0 ]; then
  git -C /repo apply $OUT/patch.diff
  for P in $PROPS; do
    (cd /verif && ./bin/govc check $P > $OUT/check_$P.txt 2>&1); RC=$?
    grep -h "^VIOLATION" $OUT/check_$P.txt | cut -c1-300 | head -3
    tail -1 $OUT/check_$P.txt
    DET="$DET $P:exit$RC"
  done
  git -C /repo checkout -- .
  (cd /verif && for P in $PROPS; do ./bin/govc check $P > /dev/null 2>&1; done)  # restore evidence for unchanged tree
else
  echo "SEED NOT CONFIRMED"
fi
python3 - <<PY
import json
m=json.load(open('$SRC/meta.json'))
m.update({"confirmed_by_me":{"demo_unchanged_exit":$R0,"demo_changed_exit":$R1,"build_exit":$RB,"existing_tests_exit":$RT,"existing_tests_cmd":"go test -count=1 -vet=off $PKGS","checks":"$DET".split()}})
json.dump(m,open('$OUT/meta.json','w'),indent=1)
PY
echo "RESULT $NAME:$DET"
