#!/bin/bash
# runs every registered quick check on the current /repo tree and prints a summary
cd /verif
for p in $(python3 -c "import json;print(' '.join(c['property_id'] for c in json.load(open('MANIFEST.json'))['checks']))"); do
  ./bin/govc check $p --tier quick | tail -1
done
